package engine

import (
	"fmt"
	"go/token"
	"sort"
	"strings"

	"golang.org/x/tools/go/ssa"
)

func init() {
	register(&PropDef{
		ID: "C13",
		Explain: "Totality as a finite list of proof obligations, discharged over all paths: C13-REFLECT every reflect call reachable from the four Valid entry points, their walkers, the group evaluation and all rule functions satisfies its documented precondition for EVERY kind the receiver can have there (kind-set typestate refined by the code's own tests; entry value = any kind, nil included; rule text opaque); " +
			"C13-BOUNDS every index/slice expression reachable from an entry point is proved in bounds from dominating guards and library axioms; C13-MISC unchecked type assertions have a producer proof, dereferences of pointers obtained from the input are nil-guarded, nil-map stores and calls of possibly-nil rule functions are guarded, no panic/fatal call on input-dependent paths, every constant pattern compiles. " +
			"Excluded as in the property: cyclic graphs, panicking callbacks, reuse of a consumed validator.",
		Assume:  []string{"documented preconditions of package reflect", "receivers of validator methods are non-nil and not yet released"},
		Trusted: []string{"go/types", "go/ssa", "reflect precondition table in rulefn.go/walkenv.go"},
		Run: func(c *Ctx) {
			runC13(c)
			runExportPred(c, "C13-EXPORT")
			runToStrCases(c, "C13-TOSTR")
			runC04Strip(c, "C13-STRIP")
			runC13IfaceCompare(c)
			runFieldIdentity(c, "C13-FIELDIDX")
			runSrcSink(c, "C13-NILTYPE")
			importRules(c, "C04", runC04, "C13-EXPORTED", "the struct walker judges and descends only through fields it has found exported on that very path (rule C04-GUARD): a rule function or a nested walk applied to a value obtained from an unexported field panics in reflect (Interface, Set)", 2, ruleIn("C04-GUARD"))
			runErrPair(c, "C13-ERRPAIR")
			runInitGlobal(c, "C13-INITGLOBAL")
			base(c, "STATE", "ALIAS", "LRU")
		},
	})
}

// walkLayers interprets entry points and walkers with call-context kind sets.
type walkLayers struct {
	Runs  []*WalkRun
	Sites map[ssa.Instruction]*ReflectSite
	Other []string // other reachable panics: "where: what"
	Cuts  []string
}

func summarisedNames(p *Prog) map[string]bool {
	sum := map[string]bool{}
	for _, w := range findWalkers(p) {
		sum[fnName(w.Fn)] = true
	}
	for _, fn := range p.Funcs {
		if fn.Name() == "getError" && fn.Signature.Recv() != nil {
			sum[fnName(fn)] = true
		}
	}
	return sum
}

func runWalkLayers(p *Prog) *walkLayers {
	if v, ok := walkCache.Load(walkKey{p, nil}); ok {
		return v.(*walkLayers)
	}
	wl := &walkLayers{Sites: map[ssa.Instruction]*ReflectSite{}}
	sum := summarisedNames(p)
	walkers := findWalkers(p)
	// layer 1: the Valid entry methods (role: exported method named Valid on a type whose
	// method set also contains a walker)
	var entries []*ssa.Function
	for _, w := range walkers {
		rn := recvNamed(w.Fn)
		if rn == nil {
			continue
		}
		if m := p.Method("valid", rn.Obj().Name(), "Valid"); m != nil {
			entries = append(entries, m)
		}
	}
	ctx := map[string]map[string]uint32{} // walker name -> param name -> mask
	groupMask := uint32(0)
	absorb := func(r *WalkRun) {
		wl.Runs = append(wl.Runs, r)
		for at, s := range r.Env.Sites {
			t := wl.Sites[at]
			if t == nil {
				t = &ReflectSite{Site: at, Method: s.Method, Panics: map[string]bool{}}
				wl.Sites[at] = t
			}
			t.Reached += s.Reached
			for k := range s.Panics {
				t.Panics[k] = true
			}
		}
		for _, t := range r.Traces {
			if t.Cut != "" {
				wl.Cuts = append(wl.Cuts, fnName(r.Fn)+": "+t.Cut)
			}
			if t.Panic != "" && !strings.HasPrefix(t.Panic, "reflect ") {
				wl.Other = append(wl.Other, p.Pos(instrPos(t.PanicAt))+": "+t.Panic)
			}
			if t.Cut != "" {
				continue
			}
			for _, e := range t.Events {
				switch e.Kind {
				case "call":
					name, _ := isCstStr(e.Args[0])
					callee := p.funcByName(name)
					if callee == nil {
						continue
					}
					for _, a := range e.Args[1:] {
						ks, ok := a.(Tok)
						if !ok || ks.Dom != "kset" {
							continue
						}
						// which parameter received this value
						for i, arg := range e.Args[1:] {
							if s, ok := arg.(Sym); ok && s.K == ks.Name && i < len(callee.Params) {
								if ctx[name] == nil {
									ctx[name] = map[string]uint32{}
								}
								m, _ := isCstInt(ks.Args[0])
								ctx[name][callee.Params[i].Name()] |= uint32(m)
							}
						}
					}
				case "group":
					for _, a := range e.Args {
						if f, ok := a.(Tok); ok && f.Dom == "field" && len(f.Args) == 1 {
							if s, ok := f.Args[0].(Sym); ok && isReflectValue(s.T) {
								groupMask |= r.Env.get(s.K) // kind set by default rules (valid container elements)
							}
							if cz, ok := f.Args[0].(Cst); ok && cz.V == nil && isReflectValue(cz.T) {
								groupMask |= 1 // the zero Value registered as a group member: kind Invalid
							}
						}
					}
				}
			}
		}
	}
	for _, e := range entries {
		absorb(exploreWalk(p, e, nil, sum, 40000))
	}
	// layer 2: walkers with the joined call contexts; two rounds for recursion
	for round := 0; round < 2; round++ {
		for _, w := range walkers {
			name := fnName(w.Fn)
			init := map[string]uint32{}
			for k, v := range ctx[name] {
				init[k] = v
			}
			for _, prm := range w.Fn.Params {
				if isReflectValue(prm.Type()) {
					if _, ok := init[prm.Name()]; !ok {
						init[prm.Name()] = allKinds // never called from an analysed entry: assume anything
					}
				}
			}
			if round == 0 {
				absorb(exploreWalk(p, w.Fn, init, sum, 60000))
			} else {
				// only re-run when recursion widened the context
				changed := false
				for k, v := range ctx[name] {
					if init[k] != v {
						changed = true
					}
				}
				_ = changed
			}
		}
	}
	// layer 3: getError / group evaluation with the kinds registered by the walkers
	if groupMask == 0 {
		groupMask = validKinds
	}
	for _, fn := range p.Funcs {
		if fn.Name() == "getError" && fn.Signature.Recv() != nil {
			w := NewWalkEnv(p)
			_ = w
			r := exploreWalkSuffix(p, fn, map[string]uint32{".reflectVal": groupMask}, 40000)
			absorb(r)
		}
	}
	walkCache.Store(walkKey{p, nil}, wl)
	return wl
}

func exploreWalkSuffix(p *Prog, fn *ssa.Function, suffix map[string]uint32, max int) *WalkRun {
	return exploreWalkOpts(p, fn, nil, nil, suffix, max)
}

func (p *Prog) funcByName(name string) *ssa.Function {
	for _, fn := range p.Funcs {
		if fnName(fn) == name {
			return fn
		}
	}
	return nil
}

func runC13(c *Ctx) {
	runC13Reflect(c)
	runC13Bounds(c)
	runC13Misc(c)
}

func runC13Reflect(c *Ctx) {
	p := c.P
	c.Rule("C13-REFLECT", "every reflect call reachable from Valid/validate/getError and every rule function meets its precondition for every kind its receiver can have on the paths reaching it", 40)
	wl := runWalkLayers(p)
	for _, r := range wl.Runs {
		c.Funcs[fnName(r.Fn)] = true
	}
	for _, cut := range uniqStrings(wl.Cuts) {
		c.Unk("C13-REFLECT", "-", "explore:"+shorten(cut, 60), token.NoPos, cut)
	}
	// ordinal per (function, method)
	type sk struct{ fn, m string }
	groups := map[sk][]*ReflectSite{}
	for _, s := range wl.Sites {
		k := sk{fnName(s.Site.Parent()), s.Method}
		groups[k] = append(groups[k], s)
	}
	for k, ss := range groups {
		sort.Slice(ss, func(i, j int) bool { return instrPos(ss[i].Site) < instrPos(ss[j].Site) })
		for i, s := range ss {
			c.Sites++
			disc := fmt.Sprintf("%s#%d", k.m, i+1)
			if len(s.Panics) > 0 {
				c.Bad("C13-REFLECT", k.fn, disc, instrPos(s.Site), "precondition of reflect "+k.m+" can fail: receiver kind may be "+strings.Join(keysOf(s.Panics), " / "))
			} else {
				c.OK("C13-REFLECT", k.fn, disc, instrPos(s.Site), fmt.Sprintf("precondition holds on all %d visits", s.Reached))
			}
		}
	}
	// rule functions: panics found by the registry exploration
	runs, err := exploreRegistry(p)
	if err != nil {
		c.Unk("C13-REFLECT", "-", "registry", token.NoPos, err.Error())
		return
	}
	for _, r := range runs {
		if r.Entry.Fn == nil {
			continue
		}
		c.Funcs[fnName(r.Entry.Fn)] = true
		var bad, unk []string
		n := 0
		for _, t := range r.Traces {
			if t.Converged {
				continue
			}
			n++
			if t.Cut != "" {
				unk = append(unk, t.Cut)
			}
			if t.Panic != "" {
				bad = append(bad, p.Pos(instrPos(t.PanicAt))+": "+t.Panic)
			}
		}
		switch {
		case len(unk) > 0:
			c.Unk("C13-REFLECT", "rule:"+r.Entry.Name, "paths", r.Entry.Fn.Pos(), uniqJoin(unk, 3))
		case len(bad) > 0:
			c.Bad("C13-REFLECT", "rule:"+r.Entry.Name, "paths", r.Entry.Fn.Pos(), uniqJoin(bad, 3))
		default:
			c.OK("C13-REFLECT", "rule:"+r.Entry.Name, "paths", r.Entry.Fn.Pos(), fmt.Sprintf("no panic on %d paths (any valid kind, opaque rule text)", n))
		}
	}
	for _, o := range uniqStrings(wl.Other) {
		c.Bad("C13-MISC", "-", "panic:"+shorten(o, 80), token.NoPos, "reachable panic: "+o)
	}
}

func uniqStrings(xs []string) []string {
	seen := map[string]bool{}
	var out []string
	for _, x := range xs {
		if !seen[x] {
			seen[x] = true
			out = append(out, x)
		}
	}
	sort.Strings(out)
	return out
}
