package engine

import (
	"go/token"
	"go/types"
	"strings"

	"golang.org/x/tools/go/ssa"
)

// Rendering of a list by a loop. Two shapes are understood, both reduced to the same description
// "what the first element contributes, what every later element contributes":
//
//   A  parts = append(parts, X) per element; return strings.Join(parts, SEP)
//        first = X, later = SEP X
//   B  a local strings.Builder; per element Write*(…) calls, some under a test that tells the first
//      iteration from the later ones (index > 0, builder.Len() > 0); return builder.String()
//        first / later = the sequence of texts written on the path of that case
//
// Every path through one iteration is walked for the two cases; a branch that is not decided by the
// case makes the loop "not understood" (the caller fails closed).

type renderModel struct {
	First, Later []string
	Why          string // non-empty: not understood
}

func mergeConsts(parts []string) []string {
	var out []string
	for _, p := range parts {
		if strings.HasPrefix(p, "const:") && len(out) > 0 && strings.HasPrefix(out[len(out)-1], "const:") {
			out[len(out)-1] += p[len("const:"):]
			continue
		}
		out = append(out, p)
	}
	return out
}

func renderLoopModel(p *Prog, fn *ssa.Function) renderModel {
	// ---- shape A
	for _, jc := range callsIn(fn, "strings.Join") {
		sep, ok := constString(jc.Call.Args[1])
		if !ok {
			continue
		}
		returned := false
		for _, r := range refs(jc) {
			if _, ok := r.(*ssa.Return); ok {
				returned = true
			}
		}
		if !returned {
			continue
		}
		// the joined list: φ in a loop header fed by append(list, X)
		var elems [][]string
		seen := map[ssa.Value]bool{}
		okList := true
		var walk func(v ssa.Value)
		walk = func(v ssa.Value) {
			if seen[v] {
				return
			}
			seen[v] = true
			switch x := v.(type) {
			case *ssa.Phi:
				for _, e := range x.Edges {
					walk(e)
				}
			case *ssa.Call:
				if calleeName(&x.Call) == "builtin.append" {
					el := elemOfVariadic(x.Call.Args[1])
					if el == nil {
						okList = false
						return
					}
					elems = append(elems, mergeConsts(renderParts(el)))
					walk(x.Call.Args[0])
					return
				}
				okList = false
			default:
				if !isNilConst(v) && !isFreshEmptySlice(v) {
					okList = false
				}
			}
		}
		walk(jc.Call.Args[0])
		if !okList || len(elems) != 1 || elems[0] == nil {
			return renderModel{Why: "the joined list is not built by one append per element"}
		}
		return renderModel{First: elems[0], Later: mergeConsts(append([]string{"const:" + sep}, elems[0]...))}
	}
	// ---- shape B
	var buf *ssa.Alloc
	for _, b := range fn.Blocks {
		for _, ins := range b.Instrs {
			if al, ok := ins.(*ssa.Alloc); ok && isNamed(al.Type().(*types.Pointer).Elem(), "strings", "Builder") {
				buf = al
			}
		}
	}
	if buf == nil {
		return renderModel{Why: "neither a joined list nor a local strings.Builder"}
	}
	sc := callsIn(fn, "(*strings.Builder).String")
	retOK := false
	for _, call := range sc {
		if call.Call.Args[0] == ssa.Value(buf) {
			for _, r := range refs(call) {
				if _, ok := r.(*ssa.Return); ok {
					retOK = true
				}
			}
		}
	}
	if !retOK {
		return renderModel{Why: "the builder's text is not what is returned"}
	}
	isWrite := func(ins ssa.Instruction) (string, bool) {
		call, ok := ins.(*ssa.Call)
		if !ok || len(call.Call.Args) == 0 || call.Call.Args[0] != ssa.Value(buf) {
			return "", false
		}
		switch calleeName(&call.Call) {
		case "(*strings.Builder).WriteString":
			ps := renderParts(call.Call.Args[1])
			if len(ps) == 0 {
				return "val:?", true
			}
			return strings.Join(ps, "\x01"), true // several parts: split again by the caller
		case "(*strings.Builder).WriteByte", "(*strings.Builder).WriteRune":
			if k, ok := constInt(call.Call.Args[1]); ok {
				return "const:" + string(rune(k)), true
			}
			return "val:?", true
		case "(*strings.Builder).Write":
			return "val:?", true
		}
		return "", false
	}
	var loop *loopInfo
	for _, l := range naturalLoops(fn) {
		for b := range l.Body {
			for _, ins := range b.Instrs {
				if _, ok := isWrite(ins); ok {
					loop = l
				}
			}
		}
	}
	if loop == nil {
		return renderModel{Why: "no loop writing to the builder"}
	}
	// writes outside the loop would be a prefix/suffix of the whole text
	for _, b := range fn.Blocks {
		if loop.Body[b] {
			continue
		}
		for _, ins := range b.Instrs {
			if _, ok := isWrite(ins); ok {
				return renderModel{Why: "text is written outside the element loop"}
			}
		}
	}
	// induction variable: header φ with a constant initial value and step +1
	var ind *ssa.Phi
	var init int64
	for _, ins := range loop.Header.Instrs {
		ph, ok := ins.(*ssa.Phi)
		if !ok {
			break
		}
		if bt, ok := ph.Type().Underlying().(*types.Basic); !ok || bt.Info()&types.IsInteger == 0 {
			continue
		}
		okStep, okInit := false, false
		for i, e := range ph.Edges {
			if loop.Body[ph.Block().Preds[i]] {
				if bo, ok := e.(*ssa.BinOp); ok && bo.Op == token.ADD && bo.X == ssa.Value(ph) {
					if k, ok := constInt(bo.Y); ok && k == 1 {
						okStep = true
					}
				}
			} else if k, ok := constInt(e); ok {
				init, okInit = k, true
			}
		}
		if okStep && okInit {
			ind = ph
		}
	}
	// value of an integer expression in the first iteration (exact) / in later ones (lower bound)
	var idxOf func(v ssa.Value) (off int64, ok bool)
	idxOf = func(v ssa.Value) (int64, bool) {
		if ind != nil && v == ssa.Value(ind) {
			return 0, true
		}
		if bo, ok := v.(*ssa.BinOp); ok && (bo.Op == token.ADD || bo.Op == token.SUB) {
			if o, ok := idxOf(bo.X); ok {
				if k, ok := constInt(bo.Y); ok {
					if bo.Op == token.SUB {
						k = -k
					}
					return o + k, true
				}
			}
		}
		return 0, false
	}
	evalCond := func(v ssa.Value, first bool, wroteBefore bool) (val, known bool) {
		neg := false
		for {
			if u, ok := v.(*ssa.UnOp); ok && u.Op == token.NOT {
				v, neg = u.X, !neg
				continue
			}
			break
		}
		bo, ok := v.(*ssa.BinOp)
		if !ok {
			return false, false
		}
		k, isK := constInt(bo.Y)
		if !isK {
			return false, false
		}
		// builder.Len() OP k: the text is empty exactly before the first element (checked by the caller:
		// every element writes a non-empty constant)
		if call, ok := bo.X.(*ssa.Call); ok && calleeName(&call.Call) == "(*strings.Builder).Len" && call.Call.Args[0] == ssa.Value(buf) && !wroteBefore {
			if first {
				return cmpInt(0, bo.Op, k) != neg, true
			}
			// later: Len >= 1
			r, known := cmpLower(1, bo.Op, k)
			return r != neg, known
		}
		off, ok := idxOf(bo.X)
		if !ok {
			return false, false
		}
		if first {
			return cmpInt(init+off, bo.Op, k) != neg, true
		}
		r, known := cmpLower(init+off+1, bo.Op, k)
		return r != neg, known
	}
	body := (*ssa.BasicBlock)(nil)
	for _, s := range loop.Header.Succs {
		if loop.Body[s] {
			body = s
		}
	}
	if body == nil {
		return renderModel{Why: "loop shape not recognised"}
	}
	why := ""
	run := func(first bool) []string {
		var result []string
		done := false
		var walk func(b *ssa.BasicBlock, acc []string, depth int)
		walk = func(b *ssa.BasicBlock, acc []string, depth int) {
			if why != "" || depth > 40 {
				if depth > 40 {
					why = "iteration path too long"
				}
				return
			}
			if b == loop.Header {
				if done && strings.Join(result, "\x00") != strings.Join(acc, "\x00") {
					why = "two paths through one iteration write different texts"
				}
				result, done = acc, true
				return
			}
			if !loop.Body[b] {
				why = "the loop is left from inside an iteration"
				return
			}
			for _, ins := range b.Instrs {
				if w, ok := isWrite(ins); ok {
					acc = append(append([]string{}, acc...), strings.Split(w, "\x01")...)
				}
			}
			switch t := b.Instrs[len(b.Instrs)-1].(type) {
			case *ssa.If:
				val, known := evalCond(t.Cond, first, len(acc) > 0)
				if !known {
					why = "a branch inside the element loop is not decided by first/later element"
					return
				}
				if val {
					walk(b.Succs[0], acc, depth+1)
				} else {
					walk(b.Succs[1], acc, depth+1)
				}
			case *ssa.Jump:
				walk(b.Succs[0], acc, depth+1)
			default:
				why = "the function returns from inside an iteration"
			}
		}
		walk(body, nil, 0)
		return mergeConsts(result)
	}
	first := run(true)
	later := run(false)
	if why != "" {
		return renderModel{Why: why}
	}
	return renderModel{First: first, Later: later}
}

func cmpInt(a int64, op token.Token, b int64) bool {
	switch op {
	case token.EQL:
		return a == b
	case token.NEQ:
		return a != b
	case token.LSS:
		return a < b
	case token.LEQ:
		return a <= b
	case token.GTR:
		return a > b
	case token.GEQ:
		return a >= b
	}
	return false
}

// cmpLower decides "x OP k" knowing only x >= lo.
func cmpLower(lo int64, op token.Token, k int64) (val, known bool) {
	switch op {
	case token.GTR:
		if lo > k {
			return true, true
		}
	case token.GEQ:
		if lo >= k {
			return true, true
		}
	case token.LSS:
		if lo >= k {
			return false, true
		}
	case token.LEQ:
		if lo > k {
			return false, true
		}
	case token.EQL:
		if lo > k {
			return false, true
		}
	case token.NEQ:
		if lo > k {
			return true, true
		}
	}
	return false, false
}
