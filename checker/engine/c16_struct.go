package engine

import (
	"fmt"
	"go/token"
	"regexp"
	"strings"
)

var (
	reSplitOf = regexp.MustCompile(`^valid\.ValidNamesSplit\((.*), nil\)\[[^\[\]]*\]$`)
)

// splitCall parses "f(a, b(c, d), e)" into name and top-level arguments.
func splitCall(key string) (name string, args []string, ok bool) {
	i := strings.Index(key, "(")
	// the function name itself may contain parentheses: "(valid.RM).Get(...)"
	if strings.HasPrefix(key, "(") {
		j := strings.Index(key, ")")
		if j < 0 {
			return "", nil, false
		}
		k := strings.Index(key[j:], "(")
		if k < 0 {
			return "", nil, false
		}
		i = j + k
	}
	if i < 0 || !strings.HasSuffix(key, ")") {
		return "", nil, false
	}
	name = key[:i]
	body := key[i+1 : len(key)-1]
	depth, start := 0, 0
	inStr := false
	for p := 0; p < len(body); p++ {
		ch := body[p]
		switch {
		case ch == '"' && (p == 0 || body[p-1] != '\\'):
			inStr = !inStr
		case inStr:
		case ch == '(' || ch == '[':
			depth++
		case ch == ')' || ch == ']':
			depth--
			if depth < 0 {
				return "", nil, false
			}
		case ch == ',' && depth == 0:
			args = append(args, strings.TrimSpace(body[start:p]))
			start = p + 1
		}
	}
	if depth != 0 {
		return "", nil, false
	}
	args = append(args, strings.TrimSpace(body[start:]))
	return name, args, true
}

// getOf recognises (valid.RM).Get(rm, name).
func getOf(key string) (rm, name string, ok bool) {
	n, a, ok := splitCall(key)
	if !ok || n != "(valid.RM).Get" || len(a) != 2 {
		return "", "", false
	}
	return a[0], a[1], true
}

func runC16Struct(c *Ctx, wl *walkLayers) {
	p := c.P
	c.Rule("C16-REPLACE", "struct walker: the rule string of a field is exactly the programmatic rule (RM.Get for that field's name) when it is non-empty, otherwise the cached tag rule of the same field; never a concatenation", 1)
	c.Rule("C16-SCOPE", "struct walker: the rule set consulted is the one registered for the object's own type; the unscoped set only for the outermost object (empty path) and only when the type-scoped set is empty; SetRule keys by the pointer-stripped type of its argument or by the sentinel when none is given", 2)
	var rep, scope []string
	n := 0
	var pos token.Pos
	for _, rc := range ruleCalls(wl) {
		if fnName(rc.we.Run.Fn) != "(*valid.VStruct).validate" {
			continue
		}
		pos = rc.we.Run.Fn.Pos()
		m := reSplitOf.FindStringSubmatch(rc.item)
		if m == nil {
			continue // C18-SKEL reports
		}
		n++
		c.Sites++
		X := m[1]
		pc := rc.we.E.PC
		fi := strings.TrimSuffix(rc.fld, ".name") // field info expression
		if !strings.HasSuffix(rc.fld, ".name") {
			rep = append(rep, "field name passed to the rule function is not the cached field's name: "+shorten(rc.fld, 80))
			continue
		}
		var rmExpr string
		if grm, gname, isGet := getOf(X); isGet {
			rmExpr = grm
			if gname != rc.fld {
				rep = append(rep, "programmatic rule looked up under a different name than the field being validated")
			}
			if v, ok := pc[`eq("",`+X+`)`]; !ok || v != 0 {
				rep = append(rep, "programmatic rule used without having been found non-empty")
			}
		} else if X == fi+".validNames" {
			// tag rule: the programmatic rule for this field must have been consulted and empty
			found := false
			for k, v := range pc {
				if strings.HasPrefix(k, `eq("",(valid.RM).Get(`) && strings.HasSuffix(k, ", "+rc.fld+"))") {
					found = true
					if v != 1 {
						rep = append(rep, "tag rule used although the programmatic rule for the field is non-empty")
					}
					if grm, _, isGet := getOf(k[len(`eq("",`) : len(k)-1]); isGet {
						rmExpr = grm
					}
				}
			}
			if !found {
				rep = append(rep, "tag rule used without consulting the programmatic rule set for the field")
			}
		} else {
			rep = append(rep, "rule string is neither the programmatic rule nor the cached tag rule of the field (concatenated or from elsewhere): "+shorten(X, 100))
			continue
		}
		// scope
		outer, hasOuter := pc[`eq("",structName)`]
		switch {
		case rmExpr == "nil" || rmExpr == "":
		case strings.HasPrefix(rmExpr, "v.ruleMap[g:valid."):
			typeEmpty := false
			for k, v := range pc {
				if strings.HasPrefix(k, "eq(0,len(v.ruleMap[") && strings.HasSuffix(k, ".Type()]))") && v == 1 {
					typeEmpty = true
				}
			}
			if !hasOuter || outer != 1 {
				scope = append(scope, "the unscoped rule set is consulted for a nested object")
			}
			if !typeEmpty {
				scope = append(scope, "the unscoped rule set is consulted although the set registered for the object's type was not found empty")
			}
		case strings.HasPrefix(rmExpr, "v.ruleMap[") && strings.HasSuffix(rmExpr, ".Type()]"):
			ty := strings.TrimSuffix(strings.TrimPrefix(rmExpr, "v.ruleMap["), "]")
			if !strings.HasPrefix(rc.v, strings.TrimSuffix(ty, ".Type()")+".Field(") {
				scope = append(scope, "rule set is looked up by a type other than the type of the object whose field is validated: "+shorten(ty, 80))
			}
		default:
			scope = append(scope, "rule set comes from an unrecognised place: "+shorten(rmExpr, 80))
		}
	}
	if n == 0 {
		c.Unk("C16-REPLACE", "(*valid.VStruct).validate", "rule-string", token.NoPos, "struct walker not observed")
	} else {
		c.Check(len(rep) == 0, "C16-REPLACE", "(*valid.VStruct).validate", "rule-string", pos, fmt.Sprintf("%d call paths", n), uniqJoin(rep, 3))
		c.Check(len(scope) == 0, "C16-SCOPE", "(*valid.VStruct).validate", "rule-set", pos, fmt.Sprintf("%d call paths", n), uniqJoin(scope, 3))
	}
	// SetRule keys
	if fn := p.Method("valid", "VStruct", "SetRule"); fn != nil {
		c.Funcs[fnName(fn)] = true
		r := exploreWalk(p, fn, nil, nil, 2000)
		var bad []string
		upd := 0
		for _, t := range r.Traces {
			if t.Cut != "" {
				c.Unk("C16-SCOPE", fnName(fn), "key", fn.Pos(), t.Cut)
				continue
			}
			for _, e := range t.Events {
				if e.Kind != "mapupdate" || !strings.Contains(keyOf(e.Args[0]), "ruleMap") {
					continue
				}
				upd++
				k := keyOf(e.Args[1])
				none, okN := e.PC["eq(0,len(obj))"]
				switch {
				case okN && none == 1:
					if !strings.HasPrefix(k, "g:valid.") {
						bad = append(bad, "with no object given the rule set is not stored under the unscoped sentinel but under "+shorten(k, 60))
					}
				default:
					if !strings.Contains(k, "RemoveTypePtr") && !strings.Contains(k, "reflect.TypeOf(obj[0]") {
						bad = append(bad, "with an object given the rule set is not stored under its pointer-stripped type but under "+shorten(k, 60))
					}
					if strings.HasPrefix(k, "reflect.TypeOf(") {
						if v, ok := e.PC["kind("+k+")∈{ptr}#0"]; !ok || v != 0 {
							bad = append(bad, "the key type is not pointer-stripped (a rule set given for *T would never match values of type T)")
						}
					}
				}
			}
		}
		c.Check(len(bad) == 0 && upd >= 2, "C16-SCOPE", fnName(fn), "key", fn.Pos(), fmt.Sprintf("%d registration paths", upd), uniqJoin(append(bad, fmt.Sprintf("%d registration paths", upd)), 3))
	} else {
		c.Unk("C16-SCOPE", "(*valid.VStruct).SetRule", "key", token.NoPos, "SetRule not found")
	}
}
