package engine

import (
	"fmt"
	"go/token"
	"go/types"
	"golang.org/x/tools/go/ssa"
	"regexp"
	"strings"
)

var (
	reSplitOf = regexp.MustCompile(`^valid\.ValidNamesSplit\((.*), nil\)\[[^\[\]]*\]$`)
)

// splitCall parses "f(a, b(c, d), e)" into name and top-level arguments.
func splitCall(key string) (name string, args []string, ok bool) {
	i := strings.Index(key, "(")
	// the function name itself may contain parentheses: "(valid.RM).Get(...)"
	if strings.HasPrefix(key, "(") {
		j := strings.Index(key, ")")
		if j < 0 {
			return "", nil, false
		}
		k := strings.Index(key[j:], "(")
		if k < 0 {
			return "", nil, false
		}
		i = j + k
	}
	if i < 0 || !strings.HasSuffix(key, ")") {
		return "", nil, false
	}
	name = key[:i]
	body := key[i+1 : len(key)-1]
	depth, start := 0, 0
	inStr := false
	for p := 0; p < len(body); p++ {
		ch := body[p]
		switch {
		case ch == '"' && (p == 0 || body[p-1] != '\\'):
			inStr = !inStr
		case inStr:
		case ch == '(' || ch == '[':
			depth++
		case ch == ')' || ch == ']':
			depth--
			if depth < 0 {
				return "", nil, false
			}
		case ch == ',' && depth == 0:
			args = append(args, strings.TrimSpace(body[start:p]))
			start = p + 1
		}
	}
	if depth != 0 {
		return "", nil, false
	}
	args = append(args, strings.TrimSpace(body[start:]))
	return name, args, true
}

// getOf recognises (valid.RM).Get(rm, name).
func getOf(key string) (rm, name string, ok bool) {
	n, a, ok := splitCall(key)
	if !ok || n != "(valid.RM).Get" || len(a) != 2 {
		return "", "", false
	}
	return a[0], a[1], true
}

func runC16Struct(c *Ctx, wl *walkLayers) {
	p := c.P
	c.Rule("C16-REPLACE", "struct walker: the rule string of a field is exactly the programmatic rule (RM.Get for that field's name) when it is non-empty, otherwise the cached tag rule of the same field; never a concatenation", 1)
	c.Rule("C16-SCOPE", "struct walker: the rule set consulted is the one registered for the object's own type; the unscoped set only for the outermost object (empty path) and only when the type-scoped set is empty; SetRule keys by the pointer-stripped type of its argument or by the sentinel when none is given", 2)
	var rep, scope []string
	n := 0
	var pos token.Pos
	for _, rc := range ruleCalls(wl) {
		if fnName(rc.we.Run.Fn) != "(*valid.VStruct).validate" {
			continue
		}
		pos = rc.we.Run.Fn.Pos()
		m := reSplitOf.FindStringSubmatch(rc.item)
		if m == nil {
			continue // C18-SKEL reports
		}
		n++
		c.Sites++
		X := m[1]
		pc := rc.we.E.PC
		fi := strings.TrimSuffix(rc.fld, ".name") // field info expression
		if !strings.HasSuffix(rc.fld, ".name") {
			rep = append(rep, "field name passed to the rule function is not the cached field's name: "+shorten(rc.fld, 80))
			continue
		}
		var rmExpr string
		if grm, gname, isGet := getOf(X); isGet {
			rmExpr = grm
			if gname != rc.fld {
				rep = append(rep, "programmatic rule looked up under a different name than the field being validated")
			}
			if v, ok := pc[`eq("",`+X+`)`]; !ok || v != 0 {
				rep = append(rep, "programmatic rule used without having been found non-empty")
			}
		} else if X == fi+".validNames" {
			// tag rule: the programmatic rule for this field must have been consulted and empty
			found := false
			for k, v := range pc {
				if strings.HasPrefix(k, `eq("",(valid.RM).Get(`) && strings.HasSuffix(k, ", "+rc.fld+"))") {
					found = true
					if v != 1 {
						rep = append(rep, "tag rule used although the programmatic rule for the field is non-empty")
					}
					if grm, _, isGet := getOf(k[len(`eq("",`) : len(k)-1]); isGet {
						rmExpr = grm
					}
				}
			}
			if !found {
				// ... or the whole rule set was found EMPTY on this path (the lookup is skipped when there is
				// nothing to look up)
				for k, v := range pc {
					for _, form := range []struct {
						pre  string
						when int
					}{{"lt(0,len(", 0}, {"eq(0,len(", 1}, {"gt(len(", 0}} {
						if strings.HasPrefix(k, form.pre) && v == form.when && strings.Contains(k, "ruleMap[") {
							inner := strings.TrimPrefix(k, form.pre)
							if i := strings.LastIndex(inner, "))"); i >= 0 {
								inner = inner[:i]
							}
							found = true
							rmExpr = inner
						}
					}
				}
			}
			if !found {
				// ... or there is no table of rule sets at all (v.ruleMap == nil: nothing was ever registered)
				for k, v := range pc {
					if strings.HasPrefix(k, "eq(nil,") && strings.HasSuffix(k, "ruleMap)") && v == 1 {
						found = true
					}
				}
			}
			if !found {
				rep = append(rep, "tag rule used without consulting the programmatic rule set for the field")
			}
		} else {
			rep = append(rep, "rule string is neither the programmatic rule nor the cached tag rule of the field (concatenated or from elsewhere): "+shorten(X, 100))
			continue
		}
		// scope
		outer, hasOuter := pc[outermostAtom(p)]
		switch {
		case rmExpr == "nil" || rmExpr == "":
		case strings.HasPrefix(rmExpr, "v.ruleMap[g:valid."):
			typeEmpty := typeScopedEmpty(pc)
			if !hasOuter || outer != 1 {
				scope = append(scope, "the unscoped rule set is consulted for a nested object")
			}
			if !typeEmpty {
				scope = append(scope, "the unscoped rule set is consulted although the set registered for the object's type was not found empty")
			}
		case isUnscopedField(p, rmExpr):
			// the unscoped set kept in a field of its own instead of under a sentinel key: same conditions
			typeEmpty := typeScopedEmpty(pc)
			if !hasOuter || outer != 1 {
				scope = append(scope, "the unscoped rule set is consulted for a nested object")
			}
			if !typeEmpty {
				scope = append(scope, "the unscoped rule set is consulted although the set registered for the object's type was not found empty")
			}
		case strings.HasPrefix(rmExpr, "v.ruleMap[") && strings.HasSuffix(rmExpr, ".Type()]"):
			ty := strings.TrimSuffix(strings.TrimPrefix(rmExpr, "v.ruleMap["), "]")
			if !strings.HasPrefix(rc.v, strings.TrimSuffix(ty, ".Type()")+".Field(") {
				scope = append(scope, "rule set is looked up by a type other than the type of the object whose field is validated: "+shorten(ty, 80))
			}
		default:
			scope = append(scope, "rule set comes from an unrecognised place: "+shorten(rmExpr, 80))
		}
	}
	if n == 0 {
		c.Unk("C16-REPLACE", "(*valid.VStruct).validate", "rule-string", token.NoPos, "struct walker not observed")
	} else {
		c.Check(len(rep) == 0, "C16-REPLACE", "(*valid.VStruct).validate", "rule-string", pos, fmt.Sprintf("%d call paths", n), uniqJoin(rep, 3))
		c.Check(len(scope) == 0, "C16-SCOPE", "(*valid.VStruct).validate", "rule-set", pos, fmt.Sprintf("%d call paths", n), uniqJoin(scope, 3))
	}
	// the per-call rule table is filled by SetRule only: a walker that files a rule set under another
	// key (say the unscoped set under the outermost object's type) changes which objects it applies to
	// — every nested object of that type inherits it
	{
		var bad []string
		nUpd := 0
		for _, fn := range p.Funcs {
			if fn.Pkg != p.Pkg("valid") {
				continue
			}
			for _, b := range fn.Blocks {
				for _, ins := range b.Instrs {
					mu, ok := ins.(*ssa.MapUpdate)
					if !ok {
						continue
					}
					ld, ok := mu.Map.(*ssa.UnOp)
					if !ok {
						continue
					}
					fa, ok := ld.X.(*ssa.FieldAddr)
					if !ok || fieldAddrName(fa) != "ruleMap" {
						continue
					}
					nUpd++
					c.Sites++
					if fn.Name() != "SetRule" {
						bad = append(bad, "the per-call rule table is written in "+fnName(fn)+" at "+p.Pos(mu.Pos())+" (only SetRule registers rule sets): a set filed under another key applies to other objects than the caller named")
					}
				}
			}
		}
		c.Check(len(bad) == 0 && nUpd >= 1, "C16-SCOPE", "(*valid.VStruct).ruleMap", "filled-by-SetRule-only", token.NoPos, fmt.Sprintf("%d update(s) of the per-call rule table, all in SetRule", nUpd), uniqJoin(append(bad, fmt.Sprintf("%d updates found", nUpd)), 3))
	}
	// SetRule keys
	if fn := p.Method("valid", "VStruct", "SetRule"); fn != nil {
		c.Funcs[fnName(fn)] = true
		r := exploreWalk(p, fn, nil, nil, 2000)
		var bad []string
		upd := 0
		for _, t := range r.Traces {
			if t.Cut != "" {
				c.Unk("C16-SCOPE", fnName(fn), "key", fn.Pos(), t.Cut)
				continue
			}
			for _, e := range t.Events {
				if e.Kind != "mapupdate" || !strings.Contains(keyOf(e.Args[0]), "ruleMap") {
					continue
				}
				upd++
				k := keyOf(e.Args[1])
				lens := possibleInts(e.PC, "len(obj)", []int64{0, 1, 2, 3})
				switch {
				case len(lens) == 1 && lens[0]:
					if !strings.HasPrefix(k, "g:valid.") {
						bad = append(bad, "with no object given the rule set is not stored under the unscoped sentinel but under "+shorten(k, 60))
					}
				default:
					if !strings.Contains(k, "RemoveTypePtr") && !strings.Contains(k, "reflect.TypeOf(obj[0]") {
						bad = append(bad, "with an object given the rule set is not stored under its pointer-stripped type but under "+shorten(k, 60))
					}
					if strings.HasPrefix(k, "reflect.TypeOf(") {
						if v, ok := e.PC["kind("+k+")∈{ptr}#0"]; !ok || v != 0 {
							bad = append(bad, "the key type is not pointer-stripped (a rule set given for *T would never match values of type T)")
						}
					}
				}
			}
		}
		// the unscoped set kept in a field of its own: stored only where no object was given, or the
		// object's type is the sentinel type itself (which used to select the same slot)
		for _, b := range fn.Blocks {
			for _, ins := range b.Instrs {
				st, ok := ins.(*ssa.Store)
				if !ok || len(fn.Params) < 2 || st.Val != ssa.Value(fn.Params[1]) {
					continue
				}
				fa, ok := st.Addr.(*ssa.FieldAddr)
				if !ok || fa.X != ssa.Value(fn.Params[0]) || !isNamed(st.Val.Type(), ModPath+"/valid", "RM") {
					continue
				}
				upd++
				guarded := false
				for d := b; d != nil; d = d.Idom() {
					if len(d.Preds) != 1 {
						continue
					}
					q := d.Preds[0]
					iff, ok := q.Instrs[len(q.Instrs)-1].(*ssa.If)
					if !ok || len(q.Succs) != 2 {
						continue
					}
					bo, ok := iff.Cond.(*ssa.BinOp)
					if !ok {
						continue
					}
					onTrue := q.Succs[0] == d
					isSentinel := func(v ssa.Value) bool {
						ld, ok := v.(*ssa.UnOp)
						if !ok {
							return false
						}
						g, ok := ld.X.(*ssa.Global)
						return ok && g.Name() == "validOnlyOuterObj"
					}
					isLenObj := func(v ssa.Value) bool {
						call, ok := v.(*ssa.Call)
						return ok && calleeName(&call.Call) == "builtin.len" && len(fn.Params) >= 3 && call.Call.Args[0] == ssa.Value(fn.Params[2])
					}
					switch {
					case (isSentinel(bo.X) || isSentinel(bo.Y)) && ((bo.Op == token.EQL && onTrue) || (bo.Op == token.NEQ && !onTrue)):
						guarded = true
					case isLenObj(bo.X) && bo.Op == token.EQL && onTrue:
						if k, ok := constInt(bo.Y); ok && k == 0 {
							guarded = true
						}
					case isLenObj(bo.X) && bo.Op == token.GTR && !onTrue:
						if k, ok := constInt(bo.Y); ok && k == 0 {
							guarded = true
						}
					}
				}
				if !guarded {
					bad = append(bad, "the rule set is stored as the unscoped set ("+fieldAddrName(fa)+") on a path where an object of another type was given")
				}
			}
		}
		c.Check(len(bad) == 0 && upd >= 2, "C16-SCOPE", fnName(fn), "key", fn.Pos(), fmt.Sprintf("%d registration paths", upd), uniqJoin(append(bad, fmt.Sprintf("%d registration paths", upd)), 3))
	} else {
		c.Unk("C16-SCOPE", "(*valid.VStruct).SetRule", "key", token.NoPos, "SetRule not found")
	}
}

// runC16More: two more necessary conditions of "programmatic rules and functions, documented
// scope".
//
//	C16-UNKNOWN  the rule name is looked up for every (non-empty) rule item, whatever the value
//	             of the field: the lookup is never skipped because the value is empty, so an
//	             unknown name always produces its error clause
//	C16-API      the exported wrappers hand an unscoped rule set to SetRule WITHOUT an object;
//	             binding it to the type of the value being validated makes nested values of the
//	             same type receive the override too
func runC16More(c *Ctx) {
	p := c.P
	c.Rule("C16-UNKNOWN", "in every walker the lookup of the rule name is not guarded by an emptiness test of the value", 4)
	for _, w := range findWalkers(p) {
		fn := w.Fn
		loops := naturalLoops(fn)
		n := 0
		var bad []string
		for _, b := range fn.Blocks {
			for _, ins := range b.Instrs {
				call, ok := ins.(*ssa.Call)
				if !ok {
					continue
				}
				cal := staticCallee(&call.Call)
				if cal == nil || cal.Name() != "getValidFn" {
					continue
				}
				n++
				c.Sites++
				// innermost loop containing the lookup: conditions between its header and the call
				var inner *loopInfo
				for _, l := range loops {
					if l.Body[b] && (inner == nil || len(l.Body) < len(inner.Body)) {
						inner = l
					}
				}
				// an emptiness test of the value inside the rule loop that is not preceded by the lookup
				if inner != nil {
					for bb := range inner.Body {
						iff, ok := bb.Instrs[len(bb.Instrs)-1].(*ssa.If)
						if !ok || !emptinessOfValue(iff.Cond) {
							continue
						}
						if !(b == bb || b.Dominates(bb)) {
							bad = append(bad, "the value's emptiness is tested at "+p.Pos(iff.Pos())+" before the rule name was looked up ("+p.Pos(call.Pos())+"): a rule item can be skipped for an empty value without its name ever being checked — an unknown or misspelt rule name is silently accepted")
						}
					}
				}
				for d := b; d != nil; d = d.Idom() {
					if inner != nil && d == inner.Header {
						break
					}
					if len(d.Preds) != 1 {
						continue
					}
					iff, ok := d.Preds[0].Instrs[len(d.Preds[0].Instrs)-1].(*ssa.If)
					if !ok {
						continue
					}
					if emptinessOfValue(iff.Cond) {
						bad = append(bad, "the rule-name lookup at "+p.Pos(call.Pos())+" is skipped depending on whether the value is empty ("+p.Pos(iff.Pos())+"): an unknown or misspelt rule name on an empty field is silently accepted")
					}
				}
			}
		}
		if n == 0 {
			c.Unk("C16-UNKNOWN", fnName(fn), "lookup", fn.Pos(), "no rule-name lookup found in the walker")
			continue
		}
		c.Check(len(bad) == 0, "C16-UNKNOWN", fnName(fn), "lookup", fn.Pos(), fmt.Sprintf("%d lookup(s), none behind an emptiness test", n), uniqJoin(bad, 2))
	}
	// ---- API plumbing
	c.Rule("C16-API", "exported wrappers pass an unscoped rule set to SetRule without an object; only the nested-rules wrapper passes its map key", 3)
	sp := p.Pkg("valid")
	setRule := p.Method("valid", "VStruct", "SetRule")
	validM := p.Method("valid", "VStruct", "Valid")
	if sp == nil || setRule == nil || validM == nil {
		c.Unk("C16-API", "valid", "wrappers", token.NoPos, "SetRule / Valid not found")
		return
	}
	nCalls := 0
	for _, fn := range p.Funcs {
		if fn.Pkg != sp || fn.Signature.Recv() != nil || fn.Parent() != nil {
			continue
		}
		var validated []ssa.Value
		var sets []*ssa.Call
		for _, b := range fn.Blocks {
			for _, ins := range b.Instrs {
				call, ok := ins.(*ssa.Call)
				if !ok {
					continue
				}
				switch staticCallee(&call.Call) {
				case validM:
					validated = append(validated, stripIface(call.Call.Args[1]))
				case setRule:
					sets = append(sets, call)
				}
			}
		}
		for _, call := range sets {
			nCalls++
			c.Sites++
			c.Funcs[fnName(fn)] = true
			var bad []string
			objs := variadicElems(call.Call.Args[2])
			for _, o := range objs {
				o = stripIface(o)
				for _, v := range validated {
					if o == v {
						bad = append(bad, "the rule set is bound to the type of the value being validated: every nested value of that type gets the override as well (an unscoped rule set applies to the outermost object only)")
					}
				}
			}
			if len(objs) > 0 && len(bad) == 0 {
				// only the range key of a map[interface{}]RM may be passed
				okKey := true
				for _, o := range objs {
					ex, isEx := stripIface(o).(*ssa.Extract)
					if !isEx || ex.Index != 1 {
						okKey = false
						continue
					}
					if _, isNext := ex.Tuple.(*ssa.Next); !isNext {
						okKey = false
					}
				}
				if !okKey {
					bad = append(bad, "SetRule is given an object that is not the key of the caller's per-type rule map")
				}
			}
			c.Check(len(bad) == 0, "C16-API", fnName(fn), "set-rule", call.Pos(), fmt.Sprintf("%d object argument(s)", len(objs)), uniqJoin(bad, 2))
		}
	}
	if nCalls < 3 {
		c.Unk("C16-API", "valid", "wrappers", token.NoPos, fmt.Sprintf("expected >= 3 wrapper calls of SetRule, found %d", nCalls))
	}
}

func stripIface(v ssa.Value) ssa.Value {
	for {
		switch x := v.(type) {
		case *ssa.MakeInterface:
			v = x.X
		case *ssa.ChangeInterface:
			v = x.X
		default:
			return v
		}
	}
}

// variadicElems: the elements stored into the backing array of a variadic argument slice.
func variadicElems(v ssa.Value) []ssa.Value {
	sl, ok := v.(*ssa.Slice)
	if !ok {
		return nil
	}
	al, ok := sl.X.(*ssa.Alloc)
	if !ok {
		return nil
	}
	var out []ssa.Value
	for _, r := range refs(al) {
		if ia, ok := r.(*ssa.IndexAddr); ok {
			for _, rr := range refs(ia) {
				if st, ok := rr.(*ssa.Store); ok && st.Addr == ia {
					out = append(out, st.Val)
				}
			}
		}
	}
	return out
}

// emptinessOfValue: is the condition (possibly negated) an emptiness test of a value being
// validated: reflect.Value.IsZero(), x == "" / len(x) == 0 on a string.
func emptinessOfValue(cond ssa.Value) bool {
	for {
		if u, ok := cond.(*ssa.UnOp); ok && u.Op == token.NOT {
			cond = u.X
			continue
		}
		break
	}
	switch x := cond.(type) {
	case *ssa.Call:
		return calleeName(&x.Call) == "(reflect.Value).IsZero"
	case *ssa.BinOp:
		if x.Op != token.EQL && x.Op != token.NEQ {
			return false
		}
		for _, pair := range [][2]ssa.Value{{x.X, x.Y}, {x.Y, x.X}} {
			if s, ok := constString(pair[1]); ok && s == "" {
				// only the VALUE of a url parameter, not the rule item / rule string
				if ph, ok := pair[0].(*ssa.Phi); ok && strings.Contains(ph.Comment, "val") && !strings.Contains(ph.Comment, "valid") {
					return true
				}
			}
		}
	}
	return false
}

// runC16Delegate: each walker type's getValidFn is a plain delegation to the shared resolver:
// one call of (*validCommon).getValidFn with the name it was given, whose results are returned
// on every path. A wrapper that answers some names itself (a "fast path" returning nil for the
// built-in names) hides per-call and globally registered functions of that name.
func runC16Delegate(c *Ctx) {
	p := c.P
	c.Rule("C16-DELEGATE", "every walker's getValidFn returns exactly what (*validCommon).getValidFn returns for the same name, on every path", 4)
	shared := p.Method("valid", "validCommon", "getValidFn")
	if shared == nil {
		// the shared resolver was inlined into the walkers' own getValidFn: each of them then has to look
		// the given name up in the per-call table and in the global table itself (the order of the two
		// is judged on the walkers' paths by C16-LOOKUP)
		n := 0
		for _, fn := range p.Funcs {
			if fn.Name() != "getValidFn" || fn.Signature.Recv() == nil || fn.Pkg != p.Pkg("valid") || len(fn.Params) < 2 {
				continue
			}
			n++
			c.Funcs[fnName(fn)] = true
			c.Sites++
			local, global := false, false
			for _, b := range fn.Blocks {
				for _, ins := range b.Instrs {
					lk, ok := ins.(*ssa.Lookup)
					if !ok || lk.Index != ssa.Value(fn.Params[1]) {
						continue
					}
					if ld, ok := lk.X.(*ssa.UnOp); ok {
						if _, isG := ld.X.(*ssa.Global); isG {
							global = true
						}
						if fa, isF := ld.X.(*ssa.FieldAddr); isF && fieldAddrName(fa) == "validFn" {
							local = true
						}
					}
					if ct, ok := lk.X.(*ssa.ChangeType); ok {
						if ld, ok := ct.X.(*ssa.UnOp); ok {
							if _, isG := ld.X.(*ssa.Global); isG {
								global = true
							}
						}
					}
				}
			}
			c.Check(local && global, "C16-DELEGATE", fnName(fn), "delegates", fn.Pos(), "no shared resolver: looks the given name up in the per-call and in the global table itself", "neither delegates to a shared resolver nor looks the given name up in both the per-call and the global function table")
		}
		if n == 0 {
			c.Unk("C16-DELEGATE", "(*valid.validCommon).getValidFn", "anchor", token.NoPos, "no resolver found")
		}
		return
	}
	// a walker that asks the shared resolver itself (no wrapper of its own in between) delegates by construction
	for _, w := range findWalkers(p) {
		for _, call := range callsIn(w.Fn, fnName(shared)) {
			c.Sites++
			c.OK("C16-DELEGATE", fnName(w.Fn), "delegates", call.Pos(), "calls the shared resolver directly")
			break
		}
	}
	for _, fn := range p.Funcs {
		if fn.Name() != "getValidFn" || fn == shared || fn.Pkg != shared.Pkg || fn.Signature.Recv() == nil {
			continue
		}
		c.Funcs[fnName(fn)] = true
		c.Sites++
		var bad []string
		for _, b := range fn.Blocks {
			ret, ok := b.Instrs[len(b.Instrs)-1].(*ssa.Return)
			if !ok || b == fn.Recover {
				continue
			}
			okRet := len(ret.Results) == 2
			var call *ssa.Call
			for _, r := range ret.Results {
				ex, isEx := r.(*ssa.Extract)
				if !isEx {
					okRet = false
					break
				}
				cl, isCall := ex.Tuple.(*ssa.Call)
				if !isCall || staticCallee(&cl.Call) != shared {
					okRet = false
					break
				}
				call = cl
			}
			if okRet && call != nil && (len(call.Call.Args) < 2 || call.Call.Args[1] != fn.Params[1]) {
				bad = append(bad, "the shared resolver is asked for a different name than the one given")
			}
			if !okRet {
				bad = append(bad, "a path at "+p.Pos(ret.Pos())+" answers without consulting the shared resolver: per-call and registered functions of that name are ignored")
			}
		}
		c.Check(len(bad) == 0, "C16-DELEGATE", fnName(fn), "delegates", fn.Pos(), "returns vc.getValidFn(name)", uniqJoin(bad, 2))
	}
}

// isUnscopedField: expr is "v.<field>" for a field of VStruct of type RM (the unscoped rule set
// kept in a field of its own).
func isUnscopedField(p *Prog, expr string) bool {
	if !strings.HasPrefix(expr, "v.") || strings.ContainsAny(expr[2:], ".[(") {
		return false
	}
	sp := p.Pkg("valid")
	if sp == nil {
		return false
	}
	tn := sp.Type("VStruct")
	if tn == nil {
		return false
	}
	st, ok := tn.Type().Underlying().(*types.Struct)
	if !ok {
		return false
	}
	for i := 0; i < st.NumFields(); i++ {
		if st.Field(i).Name() == expr[2:] && isNamed(st.Field(i).Type(), ModPath+"/valid", "RM") {
			return true
		}
	}
	return false
}

// typeScopedEmpty: on this path the rule set registered for the object's own type was found empty
// (len == 0, !(len > 0), len < 1) or there is no type-scoped table at all.
func typeScopedEmpty(pc map[string]int) bool {
	for k, v := range pc {
		isLen := strings.Contains(k, "len(v.ruleMap[") && strings.HasSuffix(k, ".Type()]))")
		switch {
		case isLen && strings.HasPrefix(k, "eq(0,") && v == 1:
			return true
		case isLen && strings.HasPrefix(k, "lt(0,") && v == 0: // !(0 < len)
			return true
		case isLen && strings.HasPrefix(k, "lt(len(") && strings.HasSuffix(k, ",1)") && v == 1: // len < 1
			return true
		case strings.HasPrefix(k, "eq(") && strings.Contains(k, "nil") && strings.Contains(k, "v.ruleMap") && !strings.Contains(k, "v.ruleMap[") && v == 1:
			return true
		}
	}
	return false
}
