package engine

func runC16Struct(c *Ctx, wl *walkLayers) {}
