package engine

import (
	"fmt"
	"go/constant"
	"go/token"
	"regexp"
	"sort"
	"strings"

	"golang.org/x/tools/go/ssa"
)

func init() {
	register(&PropDef{
		ID: "C14",
		Explain: "Necessary conditions of the round trip builder -> splitter -> parser, decided structurally: C14-DELIM writer/reader table agreement by constant value (the builder emits '=' between key and value and '|' before the message, the parser searches exactly those; RM.Set joins rules with ',' which is the splitter's default separator, and every walker calls the splitter with the default — rule C18-SKEL); " +
			"C14-GUARD in both branches of the parser the condition under which a message is extracted is, as a linear inequality over len(text) and the '|' index, equivalent to 'at least one byte follows the bar' (a stricter guard loses short messages, a laxer one invents an empty one); " +
			"C14-ORDER because '=' may occur inside a message, the parser relates the two delimiter positions (searches '=' only before the first '|', or compares the indices); C14-FAST the splitter's fast path is taken only when the text contains no quote and then delegates to strings.Split with the same separator. " +
			"NOT covered: the no-loss law and quote handling of the splitter's slow path (a byte-level state machine over runtime strings).",
		Assume:  []string{"strings.Index / strings.Split semantics"},
		Trusted: []string{"go/types", "go/ssa"},
		Run: func(c *Ctx) {
			runC14Parse(c)
			runC14(c)
			runC14Set(c)
			runC14Stack(c)
			runC14Split(c)
			runC14SplitterUse(c)
			runVarSetRules(c, "C14-VARSET")
			runConvIdentity(c, "C14-CONV")
			base(c, "STATE", "ALIAS", "LABEL")
		},
	})
}

// linear form over named terms
type lin struct {
	c  int64
	t  map[string]int64
	ok bool
}

func linConst(v int64) lin { return lin{c: v, t: map[string]int64{}, ok: true} }
func linTerm(n string) lin { return lin{t: map[string]int64{n: 1}, ok: true} }
func (a lin) add(b lin, sign int64) lin {
	if !a.ok || !b.ok {
		return lin{}
	}
	r := lin{c: a.c + sign*b.c, t: map[string]int64{}, ok: true}
	for k, v := range a.t {
		r.t[k] += v
	}
	for k, v := range b.t {
		r.t[k] += sign * v
	}
	for k, v := range r.t {
		if v == 0 {
			delete(r.t, k)
		}
	}
	return r
}

// linOf evaluates an int-valued SSA value as a linear form; leaves are named by `name`.
func linOf(v ssa.Value, name func(ssa.Value) (string, bool), depth int) lin {
	if depth > 8 {
		return lin{}
	}
	if c, ok := v.(*ssa.Const); ok && c.Value != nil && c.Value.Kind() == constant.Int {
		i, _ := constant.Int64Val(c.Value)
		return linConst(i)
	}
	if n, ok := name(v); ok {
		return linTerm(n)
	}
	if b, ok := v.(*ssa.BinOp); ok {
		switch b.Op {
		case token.ADD:
			return linOf(b.X, name, depth+1).add(linOf(b.Y, name, depth+1), 1)
		case token.SUB:
			return linOf(b.X, name, depth+1).add(linOf(b.Y, name, depth+1), -1)
		}
	}
	return lin{}
}

func runC14(c *Ctx) {
	p := c.P
	runC14Delim(c)
	fn := p.Func("valid", "ParseValidNameKV")
	if fn == nil {
		c.Unk("C14-GUARD", "valid.ParseValidNameKV", "anchor", token.NoPos, "parser not found")
		return
	}
	c.Funcs[fnName(fn)] = true
	// the shape rules below (guard, order, first occurrence, verbatim results) are necessary conditions
	// of the parser's table; when C14-PARSE has decided the whole table they add nothing and are not
	// applied (a parser written in another style has no such shapes); when the table has a mismatch or
	// an undecided case they are applied to say more about what is wrong
	if pv := parserVerdict(p); pv != nil && pv.decided && len(pv.byFam) == 0 {
		c.Extra["parser_shape_rules"] = "not applied: the parser's table (C14-PARSE) is decided and matches"
	} else {
		runC14ParserShape(c, fn)
		runC14Verbatim(c)
	}
	runC14Fast(c)
}

func runC14ParserShape(c *Ctx, fn *ssa.Function) {
	p := c.P
	c.Rule("C14-GUARD", "message extraction guard ≡ len(text) - barIndex - 1 >= 1 (in every branch that extracts a message)", 2)
	c.Rule("C14-ORDER", "the '=' search is confined to the text before the first '|' or the two indices are compared", 1)
	// index calls
	type idxCall struct {
		call *ssa.Call
		subj ssa.Value
		sep  string
	}
	var idx []idxCall
	for _, b := range fn.Blocks {
		for _, ins := range b.Instrs {
			call, ok := ins.(*ssa.Call)
			if !ok {
				continue
			}
			n := calleeName(&call.Call)
			switch n {
			case "strings.Index":
				if s, ok := constString(call.Call.Args[1]); ok {
					idx = append(idx, idxCall{call, call.Call.Args[0], s})
				}
			case "strings.IndexByte":
				if k, ok := constInt(call.Call.Args[1]); ok {
					idx = append(idx, idxCall{call, call.Call.Args[0], string(rune(k))})
				}
			}
		}
	}
	// the delimiters are located by their FIRST occurrence: the builder writes key, '=', value, '|',
	// message, and a message may itself contain '=' or '|'; a search from the end (LastIndex)
	// moves part of the message into the value ("ge=5|at least 5 | see manual" -> bound "5|at least 5 ")
	{
		var bad []string
		for _, b := range fn.Blocks {
			for _, ins := range b.Instrs {
				call, ok := ins.(*ssa.Call)
				if !ok {
					continue
				}
				switch n := calleeName(&call.Call); n {
				case "strings.LastIndex", "strings.LastIndexByte", "strings.LastIndexAny":
					sep := ""
					if s, ok := constString(call.Call.Args[1]); ok {
						sep = s
					} else if k, ok := constInt(call.Call.Args[1]); ok {
						sep = string(rune(k))
					}
					if sep == "|" || sep == "=" {
						bad = append(bad, fmt.Sprintf("the delimiter %q is searched from the end (%s) at %s: a message containing that character is split in the wrong place", sep, n, p.Pos(call.Pos())))
					}
				}
			}
		}
		c.Rule("C14-FIRST", "the key/value and message delimiters are located by their first occurrence (strings.Index), in both branches of the parser", 1)
		c.Check(len(bad) == 0, "C14-FIRST", fnName(fn), "first-occurrence", fn.Pos(), "no search from the end", uniqJoin(bad, 2))
	}
	// message extraction: Slice instrs x[i+1:] whose result flows to the third result
	nGuard := 0
	for _, b := range fn.Blocks {
		for _, ins := range b.Instrs {
			sl, ok := ins.(*ssa.Slice)
			if !ok || sl.Low == nil || sl.High != nil {
				continue
			}
			// Low = barIdx + 1 where barIdx is an Index(.., "|") result
			var bar *idxCall
			lowLin := linOf(sl.Low, func(v ssa.Value) (string, bool) {
				for i := range idx {
					if v == idx[i].call && idx[i].sep == "|" {
						bar = &idx[i]
						return "bar", true
					}
				}
				return "", false
			}, 0)
			if bar == nil || !lowLin.ok || lowLin.t["bar"] != 1 || lowLin.c != 1 {
				continue
			}
			if bar.subj != sl.X {
				continue // slice of a different string than the one searched
			}
			nGuard++
			c.Sites++
			// find the dominating If whose condition is a comparison of linear forms in len(X) and bar
			name := func(v ssa.Value) (string, bool) {
				if v == bar.call {
					return "bar", true
				}
				if call, ok := v.(*ssa.Call); ok && calleeName(&call.Call) == "builtin.len" && call.Call.Args[0] == sl.X {
					return "len", true
				}
				return "", false
			}
			found := false
			var detail string
			for d := b; d != nil && !found; d = d.Idom() {
				for _, pred := range d.Preds {
					iff, ok := pred.Instrs[len(pred.Instrs)-1].(*ssa.If)
					if !ok || !pred.Dominates(b) {
						continue
					}
					cmp, ok := iff.Cond.(*ssa.BinOp)
					if !ok {
						continue
					}
					l, r := linOf(cmp.X, name, 0), linOf(cmp.Y, name, 0)
					if !l.ok || !r.ok {
						continue
					}
					diff := l.add(r, -1) // l - r
					if diff.t["len"] == 0 {
						continue
					}
					trueEdge := pred.Succs[0] == d && len(d.Preds) == 1
					falseEdge := pred.Succs[1] == d && len(d.Preds) == 1
					if !trueEdge && !falseEdge {
						continue
					}
					// normalise to  S = len - bar - 1  compared with a threshold:  holds iff S >= k
					// diff = a*len + b*bar + c  OP 0
					a, bb, cc := diff.t["len"], diff.t["bar"], diff.c
					op := cmp.Op
					if falseEdge {
						op = map[token.Token]token.Token{token.GTR: token.LEQ, token.GEQ: token.LSS, token.LSS: token.GEQ, token.LEQ: token.GTR}[op]
					}
					if a < 0 {
						a, bb, cc = -a, -bb, -cc
						op = map[token.Token]token.Token{token.GTR: token.LSS, token.GEQ: token.LEQ, token.LSS: token.GTR, token.LEQ: token.GEQ}[op]
					}
					if a != 1 || bb != -1 {
						continue
					}
					// len - bar + cc OP 0 ; S = len - bar - 1  =>  S + 1 + cc OP 0
					var k int64
					switch op {
					case token.GTR: // S > -1-cc  => S >= -cc
						k = -cc
					case token.GEQ: // S >= -1-cc
						k = -1 - cc
					default:
						continue
					}
					found = true
					detail = fmt.Sprintf("message extracted iff at least %d byte(s) follow the bar", k)
					disc := fmt.Sprintf("guard%d", nGuard)
					c.Check(k == 1, "C14-GUARD", fnName(fn), disc, iff.Pos(), detail, detail+" (want exactly: at least 1) — a stricter guard turns 'rule|x' into an unknown rule, a laxer one yields an empty message")
				}
			}
			if !found {
				c.Unk("C14-GUARD", fnName(fn), fmt.Sprintf("guard%d", nGuard), sl.Pos(), "no recognisable length guard dominates the message extraction")
			}
		}
	}
	if nGuard == 0 {
		c.Unk("C14-GUARD", fnName(fn), "guards", fn.Pos(), "no message extraction (text[bar+1:]) found")
	}
	// ORDER
	var eqCalls, barCalls []idxCall
	for _, ic := range idx {
		switch ic.sep {
		case "=":
			eqCalls = append(eqCalls, ic)
		case "|":
			barCalls = append(barCalls, ic)
		}
	}
	if len(eqCalls) == 0 || len(barCalls) == 0 {
		c.Unk("C14-ORDER", fnName(fn), "delimiters", fn.Pos(), "the parser does not search for both '=' and '|' with strings.Index/IndexByte")
	} else {
		ok := false
		how := ""
		for _, ec := range eqCalls {
			// (a) subject is a prefix slice ending at a bar index
			if sl, isSl := ec.subj.(*ssa.Slice); isSl && sl.High != nil {
				for _, bc := range barCalls {
					if sl.High == bc.call {
						ok, how = true, "'=' is searched in text[:barIndex]"
					}
				}
			}
			// (b) a comparison relates the two indices
			for _, r := range refs(ec.call) {
				if cmp, isB := r.(*ssa.BinOp); isB {
					for _, bc := range barCalls {
						if (cmp.X == bc.call || cmp.Y == bc.call) && bc.subj == ec.subj {
							ok, how = true, "the '=' index is compared with the '|' index"
						}
					}
				}
			}
			for _, bc := range barCalls {
				for _, r := range refs(bc.call) {
					if cmp, isB := r.(*ssa.BinOp); isB && (cmp.X == ec.call || cmp.Y == ec.call) && bc.subj == ec.subj {
						ok, how = true, "the '|' index is compared with the '=' index"
					}
				}
			}
		}
		c.Sites++
		c.Check(ok, "C14-ORDER", fnName(fn), "delimiters", eqCalls[0].call.Pos(), how, "'=' is searched over the whole text and never related to the position of '|': a message containing '=' (which the builder allows) is split in the middle — GenValidKV(\"required\",\"\",\"a=b\") parses as key \"required|a\"")
	}
}

// runC14Delim: constants the builder writes vs constants the parser / splitter search.
func runC14Delim(c *Ctx) {
	p := c.P
	c.Rule("C14-DELIM", "builder delimiters ('=' and '|') are the ones the parser searches; RM.Set's joiner is the splitter's default separator", 2)
	gen := p.Func("valid", "GenValidKV")
	parse := p.Func("valid", "ParseValidNameKV")
	split := p.Func("valid", "ValidNamesSplit")
	set := p.Method("valid", "RM", "Set")
	if gen == nil || parse == nil || split == nil || set == nil {
		c.Unk("C14-DELIM", "valid", "anchor", token.NoPos, "builder, parser, splitter or RM.Set not found")
		return
	}
	for _, f := range []*ssa.Function{gen, parse, split, set} {
		c.Funcs[fnName(f)] = true
	}
	// builder: explore with two symbolic values
	w := NewWalkEnv(p)
	in := w.In
	in.Models["(*strings.Builder).WriteByte"] = func(in *Interp, site ssa.Instruction, cc *ssa.CallCommon, a []AVal) (AVal, bool) {
		in.Emit("write", site, a[0], a[1])
		return Cst{}, true
	}
	in.Models["(*strings.Builder).Grow"] = func(in *Interp, site ssa.Instruction, cc *ssa.CallCommon, a []AVal) (AVal, bool) { return Tup{}, true }
	in.NoInline["valid.newStrBuf"] = true
	arr := &Cell{ID: 900}
	for i := 0; i < 2; i++ {
		arr.Elems = append(arr.Elems, &Cell{ID: 901 + i, V: Sym{K: fmt.Sprintf("val%d", i)}})
	}
	kvDelims, msgDelims := map[string]bool{}, map[string]bool{}
	ownDelims := map[string]bool{}
	var listBad []string
	nList := 0
	for _, t := range in.Explore(gen, []AVal{Sym{K: "key"}, Slc{Arr: arr, Lo: 0, Hi: 2}}, 500) {
		if t.Cut != "" || t.Panic != "" || t.Converged {
			continue
		}
		// the text written, as a flat sequence of parts (constants and the symbolic key / values)
		var seq []AVal
		for _, e := range t.Events {
			if e.Kind != "write" {
				continue
			}
			if sc, ok := e.Args[1].(StrCat); ok {
				seq = append(seq, sc.Parts...)
			} else {
				seq = append(seq, e.Args[1])
			}
		}
		constText := func(v AVal) (string, bool) {
			if i, ok := isCstInt(v); ok {
				return string(rune(i)), true
			}
			return isCstStr(v)
		}
		// in / include: the value is written between brackets on EVERY path ("(" + value + ")" is what the
		// parser hands to the option splitter, which strips exactly one pair): a builder that leaves the pair
		// away for values that already look bracketed makes the consumer strip the value's own brackets
		isList := false
		for a, v := range t.PC {
			if v == 1 && (a == `eq("in",key)` || a == `eq("include",key)` || a == `eq(key,"in")` || a == `eq(key,"include")`) {
				isList = true
			}
		}
		if isList {
			for i, part := range seq {
				if keyOf(part) != "val0" {
					continue
				}
				pre, post := "", ""
				if i > 0 {
					pre, _ = constText(seq[i-1])
				}
				if i+1 < len(seq) {
					post, _ = constText(seq[i+1])
				}
				nList++
				if !strings.HasSuffix(pre, "(") || !strings.HasPrefix(post, ")") {
					listBad = append(listBad, fmt.Sprintf("on a path of the builder an in/include value is written as %q+value+%q instead of \"(\"+value+\")\" (%s)", pre, post, shorten(t.Describe(), 120)))
				}
			}
		}
		for i, part := range seq {
			k := keyOf(part)
			switch {
			case k == "key" && i+1 < len(seq):
				// what follows the key: the key/value delimiter is the first character written after it
				// (brackets or quotes wrapped around the value are part of the value for the parser)
				// not when there is no value, and not when the value brings its own delimiter (the builder
				// tests the value's first character against it and then writes none)
				hasVal := false
				for _, q := range seq {
					if strings.Contains(keyOf(q), "val0") {
						hasVal = true
					}
				}
				if !hasVal {
					continue
				}
				own := ""
				for _, a := range t.Order { // the first test of the value's first character decides (either spelling)
					if strings.HasPrefix(a, "eq(") && strings.HasSuffix(a, ",val0[0])") {
						var n int
						if _, err := fmt.Sscanf(a, "eq(%d,", &n); err == nil && t.PC[a] == 1 {
							own = string(rune(n))
						}
						break
					}
					if m := regexp.MustCompile(`^strings\.HasPrefix\(val0, "(.)"\)$`).FindStringSubmatch(a); m != nil {
						if t.PC[a] == 1 {
							own = m[1]
						}
						break
					}
				}
				if own != "" {
					ownDelims[own] = true
					continue
				}
				if s, ok := constText(seq[i+1]); ok && s != "" {
					kvDelims[s[:1]] = true
				}
			case strings.Contains(k, "val1") && i > 0:
				if s, ok := constText(seq[i-1]); ok && s != "" {
					msgDelims[s[len(s)-1:]] = true
				}
			}
		}
	}
	// parser: constants searched
	searched := map[string]bool{}
	for _, b := range parse.Blocks {
		for _, ins := range b.Instrs {
			if call, ok := ins.(*ssa.Call); ok {
				switch calleeName(&call.Call) {
				case "strings.Index", "strings.Cut", "strings.IndexByte", "strings.SplitN":
					if s, ok := constString(call.Call.Args[1]); ok {
						searched[s] = true
					}
					if k, ok := constInt(call.Call.Args[1]); ok {
						searched[string(rune(k))] = true
					}
				}
			}
		}
	}
	var bad []string
	for d := range kvDelims {
		if !searched[d] {
			bad = append(bad, fmt.Sprintf("builder separates key and value with %q, which the parser never searches", d))
		}
	}
	for d := range ownDelims {
		if !kvDelims[d] {
			bad = append(bad, fmt.Sprintf("a value beginning with %q is written without a delimiter, but the delimiter the builder writes otherwise is %v", d, keysOf(kvDelims)))
		}
	}
	for d := range msgDelims {
		if !searched[d] {
			bad = append(bad, fmt.Sprintf("builder introduces the message with %q, which the parser never searches", d))
		}
	}
	if len(kvDelims) != 1 || len(msgDelims) != 1 {
		bad = append(bad, fmt.Sprintf("builder delimiters not recognised (key/value: %v, message: %v)", keysOf(kvDelims), keysOf(msgDelims)))
	}
	c.Sites++
	c.Check(len(bad) == 0, "C14-DELIM", "valid.GenValidKV", "kv-and-message", gen.Pos(), fmt.Sprintf("builder writes %v and %v; parser searches %v", keysOf(kvDelims), keysOf(msgDelims), keysOf(searched)), strings.Join(bad, "; "))
	c.Sites++
	c.Check(len(listBad) == 0, "C14-DELIM", "valid.GenValidKV", "list-brackets", gen.Pos(), fmt.Sprintf("%d in/include paths, value always written between brackets", nList), uniqJoin(listBad, 2))
	// RM.Set joiner vs splitter default
	joiners := map[string]bool{}
	for _, b := range set.Blocks {
		for _, ins := range b.Instrs {
			if call, ok := ins.(*ssa.Call); ok && calleeName(&call.Call) == "strings.Join" {
				if s, ok := constString(call.Call.Args[1]); ok {
					joiners[s] = true
				}
			}
			if bo, ok := ins.(*ssa.BinOp); ok && bo.Op == token.ADD {
				if s, ok := constString(bo.X); ok {
					joiners[s] = true
				}
			}
		}
	}
	defaults := map[string]bool{}
	for _, b := range split.Blocks {
		for _, ins := range b.Instrs {
			if ph, ok := ins.(*ssa.Phi); ok {
				for _, e := range ph.Edges {
					if k, ok := constInt(e); ok && ph.Type().String() == "byte" || ok && ph.Type().String() == "uint8" {
						defaults[string(rune(k))] = true
					}
					// a byte of a named string constant: validNamesSep[0]
					var bx, bi ssa.Value
					switch lk := e.(type) {
					case *ssa.Lookup:
						bx, bi = lk.X, lk.Index
					case *ssa.Index:
						bx, bi = lk.X, lk.Index
					}
					if bx != nil {
						if cs, ok := constString(bx); ok {
							if i, ok := constInt(bi); ok && int(i) < len(cs) {
								defaults[string(cs[i])] = true
							}
						}
					}
				}
			}
		}
	}
	js, ds := keysOf(joiners), keysOf(defaults)
	sort.Strings(js)
	c.Sites++
	c.Check(len(js) == 1 && len(ds) == 1 && js[0] == ds[0], "C14-DELIM", "(valid.RM).Set", "joiner", set.Pos(), fmt.Sprintf("rules joined with %q, splitter default %q", js, ds), fmt.Sprintf("rules are joined with %q but the splitter's default separator is %q: rules accumulated per field are not split back", js, ds))
}

// runC14Fast: the splitter's fast path.
func runC14Fast(c *Ctx) {
	p := c.P
	c.Rule("C14-FAST", "fast path only when the text contains no single quote, delegating to strings.Split(text, separator)", 1)
	fn := p.Func("valid", "ValidNamesSplit")
	if fn == nil {
		c.Unk("C14-FAST", "valid.ValidNamesSplit", "anchor", token.NoPos, "splitter not found")
		return
	}
	var splitCall *ssa.Call
	for _, b := range fn.Blocks {
		for _, ins := range b.Instrs {
			if call, ok := ins.(*ssa.Call); ok && calleeName(&call.Call) == "strings.Split" {
				splitCall = call
			}
			if call, ok := ins.(*ssa.Call); ok && (calleeName(&call.Call) == "strings.SplitN" || calleeName(&call.Call) == "strings.SplitAfter" || calleeName(&call.Call) == "strings.SplitAfterN" || calleeName(&call.Call) == "strings.Fields") && len(call.Call.Args) >= 1 && call.Call.Args[0] == fn.Params[0] {
				limited := true
				if calleeName(&call.Call) == "strings.SplitN" && len(call.Call.Args) == 3 {
					if k, ok := constInt(call.Call.Args[2]); ok && k < 0 {
						limited = false
						splitCall = call
					}
				}
				if limited {
					c.Sites++
					c.Bad("C14-FAST", fnName(fn), "fast-path", call.Pos(), "the fast path splits the text with "+calleeName(&call.Call)+" (a piece limit, kept separators or white-space splitting) instead of strings.Split: a field with many rules comes back with the remaining rules glued into the last piece, and the fast and the quote-aware path disagree on the number of rules")
					return
				}
			}
		}
	}
	if splitCall == nil {
		// is there a fast path at all? a return on the edge where the text was found to contain no quote that
		// hands back the result of some other call: a hand-written splitter is not strings.Split
		for _, b := range fn.Blocks {
			ret, ok := b.Instrs[len(b.Instrs)-1].(*ssa.Return)
			if !ok || len(ret.Results) != 1 {
				continue
			}
			v := ret.Results[0]
			if ld, ok := v.(*ssa.UnOp); ok {
				if cell, ok := ld.X.(*ssa.Alloc); ok {
					for _, ins := range b.Instrs {
						if st, ok := ins.(*ssa.Store); ok && st.Addr == ssa.Value(cell) {
							v = st.Val
						}
					}
				}
			}
			call, ok := v.(*ssa.Call)
			if !ok || len(call.Call.Args) == 0 || call.Call.Args[0] != ssa.Value(fn.Params[0]) {
				continue
			}
			if g := staticCallee(&call.Call); g != nil && g != fn {
				c.Unk("C14-FAST", fnName(fn), "fast-path", call.Pos(), "a path returns the result of "+calleeName(&call.Call)+"(text, …) instead of strings.Split(text, separator): whether that splitter yields every piece (no cap on their number, no trimming) is not decided")
				return
			}
		}
		c.OK("C14-FAST", fnName(fn), "fast-path", fn.Pos(), "no fast path (every text goes through the quote-aware scan)")
		return
	}
	c.Sites++
	var bad []string
	if splitCall.Call.Args[0] != fn.Params[0] {
		bad = append(bad, "fast path splits something other than the input text")
	}
	// guard: dominated by the edge where IndexByte(s, '\'') == -1 / !Contains(s, "'")
	guarded := false
	for d := splitCall.Block(); d != nil; d = d.Idom() {
		for _, pred := range d.Preds {
			iff, ok := pred.Instrs[len(pred.Instrs)-1].(*ssa.If)
			if !ok || len(d.Preds) != 1 {
				continue
			}
			onTrue := pred.Succs[0] == d
			switch cond := iff.Cond.(type) {
			case *ssa.BinOp:
				call, isCall := cond.X.(*ssa.Call)
				k, isK := constInt(cond.Y)
				if !isCall || !isK || k != -1 || call.Call.Args[0] != fn.Params[0] {
					continue
				}
				n := calleeName(&call.Call)
				quote := false
				if n == "strings.IndexByte" {
					q, _ := constInt(call.Call.Args[1])
					quote = q == '\''
				}
				if n == "strings.Index" || n == "strings.IndexAny" {
					q, _ := constString(call.Call.Args[1])
					quote = q == "'"
				}
				if quote && ((cond.Op == token.EQL && onTrue) || (cond.Op == token.NEQ && !onTrue)) {
					guarded = true
				}
			case *ssa.Call:
				if calleeName(&cond.Call) == "strings.Contains" && cond.Call.Args[0] == fn.Params[0] {
					if q, _ := constString(cond.Call.Args[1]); q == "'" && !onTrue {
						guarded = true
					}
				}
			}
		}
	}
	if !guarded {
		bad = append(bad, "the fast path is not guarded by 'the text contains no single quote': quoted commas would split a rule")
	}
	// separator: string(defaultSep) where defaultSep is the separator variable
	sepOK := false
	if cv, ok := splitCall.Call.Args[1].(*ssa.Convert); ok {
		if _, isPhi := cv.X.(*ssa.Phi); isPhi {
			sepOK = true
		}
	}
	if !sepOK {
		bad = append(bad, "the fast path does not split at the separator variable used by the slow path")
	}
	c.Check(len(bad) == 0, "C14-FAST", fnName(fn), "fast-path", splitCall.Pos(), "guarded by 'no quote', same separator", strings.Join(bad, "; "))
}
