package engine

import (
	"fmt"
	"go/token"
	"go/types"
	"regexp"
	"strings"

	"golang.org/x/tools/go/ssa"
)

func init() {
	register(&PropDef{
		ID: "C06",
		Explain: "Decides the clause 'every byte outside the annotated fields' tag literals is unchanged' and necessary conditions of the merge, structurally: C06-SPLICE the result of the splice is contents[:A] ++ f(expr) ++ contents[B:] where [A,B) is the very span copied into expr and f is only the tail-literal replacement; " +
			"C06-TAIL the replacement pattern's language is 'backtick, one or more non-newline characters, backtick, end of text' (so only the trailing literal is replaced), the tag tokeniser is \\w+:\"[^\"]+\" and the comment pattern '@tag (.*)'; areas span field.Pos()..field.End(); " +
			"C06-ORDER areas are applied in descending offset order; C06-ROLE new literal = old.override(injected) formatted key:value joined by one space inside backticks; C06-ONLY between reading and writing the file its bytes are reassigned only by the splice, and the path written is the path read. " +
			"NOT covered: the key-wise merge loop itself (override/newTagItems over runtime tag lists) and the CLI flag plumbing.",
		Assume:  []string{"go/parser returns fields in source order; field.End() of a tagged field is the end of its tag literal; token.Pos of the only file in a fresh FileSet is offset+1"},
		Trusted: []string{"go/types", "go/ssa", "regexp/syntax"},
		Run: func(c *Ctx) {
			runC06(c, "C06")
			runUnits(c, "C06-UNITS", "file", "")
			importRules(c, "C19", func(s *Ctx) { runC19(s); runC19Dispatch(s, "C19-DISPATCH") }, "C06-ALLFILES", "every .go file named by -f, -p or -d is handed to the injector: the file loops leave only through their headers and ignore the per-file result, and each flag reaches the handler of its own kind (rules C19-ISOLATE, C19-DISPATCH)", 6, ruleIn("C19-ISOLATE", "C19-DISPATCH"))
		},
	})
	register(&PropDef{
		ID: "C07",
		Explain: "Decides the clause 'a file with no @tag annotations is left unchanged': the bytes written are the bytes read when the area list is empty (C07-ONLY: contents reassigned only inside the area loop, same path), and an area is produced only when the comment pattern matched a non-empty tag (C07-AREA). " +
			"Necessary conditions for the re-run case are checked too: existing keys keep their position and the injected value wins (C07-ROLE), the literal is replaced wholesale, never appended to (C07-TAIL). " +
			"NOT covered: override(override(o,i),i) = override(o,i) for all tag lists — a fixpoint property of a data-dependent loop; a merge that appends instead of overriding is not detected by this check.",
		Assume:  []string{"as C06"},
		Trusted: []string{"go/types", "go/ssa", "regexp/syntax"},
		Run: func(c *Ctx) {
			runC06(c, "C07")
			importRules(c, "C06", func(s *Ctx) { runC06(s, "C06") }, "C07-ONEPASS", "one run injects every annotated field: areas are applied in descending offset order and the splice keeps the bytes around the field (rules C06-ORDER, C06-SPLICE, C06-SPAN) — otherwise later fields are left for a later run and the file keeps changing", 3, ruleIn("C06-ORDER", "C06-SPLICE", "C06-SPAN"))
		},
	})
	register(&PropDef{
		ID: "C19",
		Explain: "C19-ORDER in the per-file handler the parse and the write are both behind the '.go' suffix test, the write is dominated by the parse's success edge, the parser's error return precedes any area construction, inside the writer the write is dominated by a successful read, and the only file-mutating call reachable from the handler is that write on the path that was read; " +
			"C19-ISOLATE the directory and glob loops leave only through their headers and ignore the per-file result, and nothing reachable from the handler can exit the process or panic explicitly; C19-NIL optional go/ast pointers (Field.Tag, Field.Comment, …) are nil-tested before use; C19-BOUNDS every index/slice of package file is proved in bounds (with two axioms about go/ast output and one fact proved by language inclusion: every tag token contains ':'). " +
			"Not covered: filesystem faults.",
		Assume:  []string{"go/ast documented optional fields", "a tag literal's source text is quoted (len >= 2)"},
		Trusted: []string{"go/types", "go/ssa", "regexp/syntax"},
		Run: func(c *Ctx) {
			runC19(c)
			runC19Dispatch(c, "C19-DISPATCH")
			importRules(c, "C06", func(s *Ctx) { runC06(s, "C06") }, "C19-KEEP", "a field whose @tag text is malformed (no key:\"value\" item) or whose span cannot be matched leaves the file intact: on every path the splice returns the bytes before the field, the (possibly unchanged) field text and the bytes after it (rules C06-SPLICE, C06-SPAN) — a path that returns nothing truncates the file", 2, ruleIn("C06-SPLICE", "C06-SPAN", "C06-ONLY"))
		},
	})
}

func callsIn(fn *ssa.Function, name string) []*ssa.Call {
	var out []*ssa.Call
	for _, b := range fn.Blocks {
		for _, ins := range b.Instrs {
			if call, ok := ins.(*ssa.Call); ok && calleeName(&call.Call) == name {
				out = append(out, call)
			}
		}
	}
	return out
}

func runC06(c *Ctx, prop string) {
	p := c.P
	inject := p.Func("file", "injectTag")
	write := p.Func("file", "WriteFile")
	parse := p.Func("file", "ParseFile")
	tfc := p.Func("file", "tagFromComment")
	if inject == nil || write == nil || parse == nil {
		c.Unk(prop+"-ONLY", "file", "anchor", token.NoPos, "injectTag / WriteFile / ParseFile not found")
		return
	}
	// the comment matcher may have been inlined into the parser: then the parser is its own matcher
	tfcInlined := tfc == nil
	if tfcInlined {
		tfc = parse
	}
	for _, f := range []*ssa.Function{inject, write, parse, tfc} {
		c.Funcs[fnName(f)] = true
	}
	// ---------------- ONLY
	c.Rule(prop+"-ONLY", "between reading and writing the file, the bytes are reassigned only by the splice inside the area loop; the path written is the path read", 1)
	{
		reads := callsIn(write, "io/ioutil.ReadAll")
		reads = append(reads, callsIn(write, "io.ReadAll")...)
		reads = append(reads, callsIn(write, "os.ReadFile")...)
		reads = append(reads, callsIn(write, "io/ioutil.ReadFile")...)
		writes := callsIn(write, "io/ioutil.WriteFile")
		writes = append(writes, callsIn(write, "os.WriteFile")...)
		var bad []string
		if len(reads) != 1 || len(writes) != 1 {
			bad = append(bad, fmt.Sprintf("expected one read and one write of the file, found %d and %d", len(reads), len(writes)))
		} else {
			w := writes[0]
			if w.Call.Args[0] != write.Params[0] {
				bad = append(bad, "the file is written to a path other than the one it was read from")
			}
			if opens := callsIn(write, "os.Open"); len(opens) == 1 && opens[0].Call.Args[0] != write.Params[0] {
				bad = append(bad, "the file opened for reading is not the input path")
			}
			// the whole file is read: ReadAll is given the opened file itself, not a limiting/partial reader
			if rd := reads[0]; strings.HasSuffix(calleeName(&rd.Call), ".ReadAll") {
				src := rd.Call.Args[0]
				if mi, ok := src.(*ssa.MakeInterface); ok {
					src = mi.X
				}
				// the file variable captured by a closing function literal lives in a cell: read the one value stored there
				if ld, ok := src.(*ssa.UnOp); ok && ld.Op == token.MUL {
					if al, ok := ld.X.(*ssa.Alloc); ok {
						var stored []ssa.Value
						for _, r := range refs(al) {
							if st, ok := r.(*ssa.Store); ok && st.Addr == ssa.Value(al) {
								stored = append(stored, st.Val)
							}
						}
						if len(stored) == 1 {
							src = stored[0]
						}
					}
				}
				fromOpen := false
				if ex, ok := src.(*ssa.Extract); ok && ex.Index == 0 {
					if oc, ok := ex.Tuple.(*ssa.Call); ok && (calleeName(&oc.Call) == "os.Open" || calleeName(&oc.Call) == "os.OpenFile") {
						fromOpen = true
					}
				}
				if !fromOpen {
					what := "a derived reader"
					if cl, ok := src.(*ssa.Call); ok {
						what = calleeName(&cl.Call) + "(...)"
					}
					bad = append(bad, "ReadAll does not read the opened file itself but "+what+": a file larger than the reader lets through is written back truncated (and area offsets beyond it are out of range)")
				}
			}
			// data written: phi over {read bytes, injectTag(phi, area)}
			data := w.Call.Args[1]
			seen := map[ssa.Value]bool{}
			var walk func(v ssa.Value)
			walk = func(v ssa.Value) {
				if seen[v] {
					return
				}
				seen[v] = true
				switch x := v.(type) {
				case *ssa.Phi:
					for _, e := range x.Edges {
						walk(e)
					}
				case *ssa.Extract:
					if x.Tuple != reads[0] || x.Index != 0 {
						bad = append(bad, "bytes written derive from something other than the bytes read")
					}
				case *ssa.Call:
					if staticCallee(&x.Call) == inject {
						walk(x.Call.Args[0])
						// must sit inside a loop over the areas
						inLoop := false
						for _, l := range naturalLoops(write) {
							if l.Body[x.Block()] {
								inLoop = true
							}
						}
						if !inLoop {
							bad = append(bad, "splice applied outside the loop over the areas")
						}
					} else {
						bad = append(bad, "bytes pass through "+calleeName(&x.Call)+" between read and write")
					}
				default:
					bad = append(bad, fmt.Sprintf("bytes written derive from %T (not the bytes read, not the splice)", v))
				}
			}
			walk(data)
			// the result is written back on every path that applied the areas: nothing between the
			// area loop and the write may skip it (a "nothing changed" shortcut decided on anything
			// but the bytes themselves drops same-length merges)
			for _, l := range naturalLoops(write) {
				for _, ee := range l.exitEdges() {
					if !blockAlwaysReaches(ee[1], w.Block()) {
						bad = append(bad, "after the areas were applied the function can return without writing the file back")
					}
				}
			}
		}
		c.Sites++
		c.Check(len(bad) == 0, prop+"-ONLY", fnName(write), "identity", write.Pos(), "bytes written = bytes read, modified only by the splice in the area loop; same path", strings.Join(uniqStrings(bad), "; "))
	}
	if prop == "C07" {
		// ---------------- AREA: an area only for a matched, non-empty @tag
		c.Rule("C07-AREA", "an area is appended only when the comment pattern matched and captured a non-empty tag text", 1)
		var bad []string
		// tagFromComment: returns match[1] under len(match)==2, else ""
		okTfc := false
		for _, call := range callsIn(tfc, "(*regexp.Regexp).FindStringSubmatch") {
			if g, ok := call.Call.Args[0].(*ssa.UnOp); ok {
				if gl, ok := g.X.(*ssa.Global); ok && gl.Name() == "rComment" {
					okTfc = true
				}
			}
		}
		if !okTfc && tfc != nil {
			if _, _, okScan := literalScanForm(tfc); okScan {
				okTfc = true // literal-scan form of the comment pattern (its language is judged by the TAIL rule)
			}
		}
		if !okTfc {
			bad = append(bad, "tagFromComment does not derive the tag from the comment pattern's submatch")
		}
		// ParseFile: append(areas, area) dominated by tag != ""
		appends := 0
		var extraGuards []string
		for _, b := range parse.Blocks {
			for _, ins := range b.Instrs {
				call, ok := ins.(*ssa.Call)
				if !ok || calleeName(&call.Call) != "builtin.append" {
					continue
				}
				if sl, ok := call.Type().Underlying().(*types.Slice); !ok || !strings.Contains(sl.Elem().String(), "textArea") {
					continue
				}
				// append(areas, more...) where `more` is itself accumulated by appends of this function
				// (a per-field list): its element appends are the constructions, checked on their own
				if len(call.Call.Args) == 2 && len(variadicElems(call.Call.Args[1])) == 0 {
					if builtFromAppendsOnly(call.Call.Args[1], map[ssa.Value]bool{}) {
						continue
					}
					bad = append(bad, "areas are taken over wholesale from a list not built here at "+p.Pos(call.Pos()))
					continue
				}
				appends++
				guarded := false
				for d := b; d != nil; d = d.Idom() {
					if len(d.Preds) != 1 {
						continue
					}
					iff, ok := d.Preds[0].Instrs[len(d.Preds[0].Instrs)-1].(*ssa.If)
					if !ok {
						continue
					}
					// a further condition on the annotation text itself (a predicate called with it) decides
					// whether a matched, non-empty @tag is injected at all: such a tag is silently dropped
					{
						cond := iff.Cond
						if u, ok := cond.(*ssa.UnOp); ok && u.Op == token.NOT {
							cond = u.X
						}
						if pc, ok := cond.(*ssa.Call); ok && calleeName(&pc.Call) != "" {
							for _, a := range pc.Call.Args {
								isTagText := false
								if tc, ok := a.(*ssa.Call); ok && staticCallee(&tc.Call) == tfc {
									isTagText = true
								}
								if tfcInlined && isSubmatchTag(a, map[ssa.Value]bool{}) {
									isTagText = true
								}
								if isTagText {
									extraGuards = append(extraGuards, "whether a matched, non-empty @tag is injected also depends on "+calleeName(&pc.Call)+"(tag) at "+p.Pos(pc.Pos())+": annotations that predicate rejects are silently not injected")
								}
							}
						}
					}
					cmp, ok := iff.Cond.(*ssa.BinOp)
					if !ok {
						continue
					}
					s, isEmpty := constString(cmp.Y)
					tc, isCall := cmp.X.(*ssa.Call)
					isTag := isCall && staticCallee(&tc.Call) == tfc
					if tfcInlined {
						// the tag text: the second submatch of the comment pattern (or "" when it did not match)
						isTag = isSubmatchTag(cmp.X, map[ssa.Value]bool{})
					}
					if isEmpty && s == "" && isTag {
						onTrue := d.Preds[0].Succs[0] == d
						if (cmp.Op == token.EQL && !onTrue) || (cmp.Op == token.NEQ && onTrue) {
							guarded = true
						}
					}
				}
				if !guarded {
					bad = append(bad, "an area is appended without the comment's tag text having been found non-empty at "+p.Pos(call.Pos()))
				}
			}
		}
		if appends == 0 {
			bad = append(bad, "no area construction found")
		}
		bad = append(bad, uniqStrings(extraGuards)...)
		// one source of annotations per field: the trailing comment group. A second source (the doc
		// comment above the field) gives one field two areas with the same offsets; the second is applied
		// to offsets the first has already shifted, is skipped in this run and injected by the next one
		for _, b := range parse.Blocks {
			for _, ins := range b.Instrs {
				fa, ok := ins.(*ssa.FieldAddr)
				if !ok || !isNamed(derefType(fa.X.Type()), "go/ast", "Field") {
					continue
				}
				if nm := fieldAddrName(fa); nm == "Doc" {
					bad = append(bad, "annotations are also read from the field's doc comment (Field.Doc) at "+p.Pos(fa.Pos())+": a field annotated above and behind yields two areas with the same offsets, the second one is applied to stale offsets")
				}
			}
		}
		c.Sites++
		c.Check(len(bad) == 0, "C07-AREA", fnName(parse), "area-iff-tag", parse.Pos(), "areas only for matched, non-empty @tag comments", strings.Join(bad, "; "))
	}
	if prop == "C06" {
		// one source of annotations per field (the C07-AREA clause, as a C06 obligation of its own: with a
		// second source the trailing comment's keys are silently lost in the first run)
		c.Rule("C06-ONESOURCE", "annotations are read from the field's trailing comment group only: a second source (Field.Doc) gives one field two areas over the same span, and the second is applied to offsets the first has shifted — its keys are dropped", 1)
		var bad []string
		for _, b := range parse.Blocks {
			for _, ins := range b.Instrs {
				fa, ok := ins.(*ssa.FieldAddr)
				if !ok || !isNamed(derefType(fa.X.Type()), "go/ast", "Field") {
					continue
				}
				if nm := fieldAddrName(fa); nm == "Doc" {
					bad = append(bad, "annotations are also read from the field's doc comment (Field.Doc) at "+p.Pos(fa.Pos()))
				}
			}
		}
		c.Sites++
		c.Check(len(bad) == 0, "C06-ONESOURCE", fnName(parse), "one-source", parse.Pos(), "annotations come from Field.Comment only", strings.Join(bad, "; "))
	}
	// ---------------- EVERYTAG: a matched, non-empty annotation on a field with a tag literal IS injected
	c.Rule(prop+"-EVERYTAG", "once a comment's @tag text has been found non-empty, no further test ON THE ANNOTATION TEXT decides whether the field's area is built (tests of the field's own tag literal — nil, too short to be a literal — do not look at what the annotation says)", 1)
	{
		var bad []string
		nA := 0
		for _, b := range parse.Blocks {
			for _, ins := range b.Instrs {
				call, ok := ins.(*ssa.Call)
				if !ok || calleeName(&call.Call) != "builtin.append" {
					continue
				}
				if sl, ok := call.Type().Underlying().(*types.Slice); !ok || !strings.Contains(sl.Elem().String(), "textArea") {
					continue
				}
				if len(call.Call.Args) == 2 && len(variadicElems(call.Call.Args[1])) == 0 {
					continue
				}
				// S: the nearest dominating edge of a comparison with the empty string (the tag-found test)
				var S *ssa.BasicBlock
				var tagText ssa.Value
				for d := b; d != nil && S == nil; d = d.Idom() {
					if len(d.Preds) != 1 {
						continue
					}
					iff, ok := d.Preds[0].Instrs[len(d.Preds[0].Instrs)-1].(*ssa.If)
					if !ok {
						continue
					}
					if cmp, ok := iff.Cond.(*ssa.BinOp); ok {
						if sv, isS := constString(cmp.Y); isS && sv == "" {
							S = d
							tagText = cmp.X
						}
					}
				}
				if S == nil {
					continue
				}
				nA++
				// blocks dominated by S from which the append is reachable inside that region
				inRegion := func(x *ssa.BasicBlock) bool { return S.Dominates(x) }
				canReach := map[*ssa.BasicBlock]bool{b: true}
				for changed := true; changed; {
					changed = false
					for _, x := range parse.Blocks {
						if canReach[x] || !inRegion(x) {
							continue
						}
						for _, sc := range x.Succs {
							if canReach[sc] && inRegion(sc) {
								canReach[x] = true
								changed = true
							}
						}
					}
				}
				for _, x := range parse.Blocks {
					if !inRegion(x) || !canReach[x] || x == b {
						continue
					}
					iff, ok := x.Instrs[len(x.Instrs)-1].(*ssa.If)
					if !ok {
						continue
					}
					r0, r1 := canReach[x.Succs[0]] && inRegion(x.Succs[0]), canReach[x.Succs[1]] && inRegion(x.Succs[1])
					if r0 == r1 {
						continue // not a deciding test (both ways still lead to the area)
					}
					okCond := false
					if cmp, ok := iff.Cond.(*ssa.BinOp); ok && (cmp.Op == token.EQL || cmp.Op == token.NEQ) {
						if isNilConst(cmp.X) || isNilConst(cmp.Y) {
							okCond = true
						}
					}
					// a test that does not look at the annotation text at all (the shape of the field's own tag
					// literal, a nil comment, ...) cannot reject an annotation for what it says
					if !okCond && tagText != nil {
						seen := map[ssa.Value]bool{}
						var dep func(v ssa.Value, d int) bool
						dep = func(v ssa.Value, d int) bool {
							if v == nil || seen[v] || d > 8 {
								return false
							}
							seen[v] = true
							if v == tagText {
								return true
							}
							if ins, ok := v.(ssa.Instruction); ok {
								for _, op := range ins.Operands(nil) {
									if op != nil && dep(*op, d+1) {
										return true
									}
								}
							}
							return false
						}
						if !dep(iff.Cond, 0) {
							okCond = true
						}
					}
					if !okCond {
						bad = append(bad, "a matched, non-empty @tag is dropped depending on a further test at "+p.Pos(firstPosOfIf(iff, x))+" (not the field's tag-literal nil test): annotations that fail it are silently not injected")
					}
				}
			}
		}
		c.Sites += nA
		c.Check(len(bad) == 0 && nA > 0, prop+"-EVERYTAG", fnName(parse), "no-extra-guard", parse.Pos(), fmt.Sprintf("%d area constructions, each reached from the tag-found edge under the tag-literal nil test only", nA), strings.Join(uniqStrings(append(bad, map[bool][]string{true: nil, false: {"no area construction behind a tag-found test"}}[nA > 0]...)), "; "))
	}
	// ---------------- SOURCE: which text the annotation is looked for in
	c.Rule(prop+"-SOURCE", "the @tag annotation is looked for in the raw text of each comment of the field's trailing comment group (ast.Comment.Text); CommentGroup.Text() is not used: it silently drops directive-shaped comments (//nolint:…, //go:…, //line …), so a field annotated in such a comment is not injected", 1)
	{
		var bad []string
		raw := 0
		for _, fn := range p.Funcs {
			if fn.Pkg == nil || fn.Pkg != p.Pkg("file") {
				continue
			}
			for _, b := range fn.Blocks {
				for _, ins := range b.Instrs {
					switch x := ins.(type) {
					case ssa.CallInstruction:
						if nm := calleeName(x.Common()); nm == "(*go/ast.CommentGroup).Text" {
							bad = append(bad, fnName(fn)+" reads the annotation through CommentGroup.Text() at "+p.Pos(instrPos(ins))+": comments that look like directives (//nolint:lll @tag …) are dropped by it, the field is silently not injected")
						}
					case *ssa.FieldAddr:
						if isNamed(derefType(x.X.Type()), "go/ast", "Comment") && fieldAddrName(x) == "Text" {
							raw++
						}
					case *ssa.Field:
						if isNamed(x.X.Type(), "go/ast", "Comment") && fieldValName(x) == "Text" {
							raw++
						}
					}
				}
			}
		}
		c.Sites += raw
		if raw == 0 {
			bad = append(bad, "no read of ast.Comment.Text found in package file")
		}
		c.Check(len(bad) == 0, prop+"-SOURCE", "file", "raw-comment-text", parse.Pos(), fmt.Sprintf("%d reads of ast.Comment.Text, no CommentGroup.Text()", raw), strings.Join(bad, "; "))
	}
	// ---------------- ROLE
	c.Rule(prop+"-ROLE", "new literal = newTagItems(CurrentTag).override(newTagItems(InjectTag)), rendered by format() inside backticks; format joins key:value pairs with one space", 1)
	{
		var bad []string
		ov := callsIn(inject, "(file.tagItems).override")
		if len(ov) != 1 {
			bad = append(bad, fmt.Sprintf("expected one override call, found %d", len(ov)))
		} else {
			role := func(v ssa.Value) string {
				call, ok := v.(*ssa.Call)
				if !ok || calleeName(&call.Call) != "file.newTagItems" {
					// the tokeniser inlined: the list is built by appends in a loop over
					// rTags.FindAllString(<area tag text>, -1)
					return roleOfInlinedList(v)
				}
				ld, ok := call.Call.Args[0].(*ssa.UnOp)
				if !ok {
					return "?"
				}
				fa, ok := ld.X.(*ssa.FieldAddr)
				if !ok {
					return "?"
				}
				return fieldAddrName(fa)
			}
			if r := role(ov[0].Call.Args[0]); r != "CurrentTag" {
				bad = append(bad, "receiver of override is built from "+r+" (want the field's current tag): existing keys would lose their position / the old value would win")
			}
			if r := role(ov[0].Call.Args[1]); r != "InjectTag" {
				bad = append(bad, "argument of override is built from "+r+" (want the injected tag)")
			}
			// the override result is rendered by format() between two backticks (Sprintf or plain
			// concatenation) and given to ReplaceAll
			fm := callsIn(inject, "(file.tagItems).format")
			if len(fm) != 1 || fm[0].Call.Args[0] != ov[0] {
				bad = append(bad, "the merged tag list is not the one rendered")
			} else {
				okLit := false
				for _, ra := range replaceCalls(inject) {
					repl := ra.Call.Args[2]
					if cv, ok := repl.(*ssa.Convert); ok {
						repl = cv.X
					}
					parts := renderParts(repl)
					if len(parts) == 3 && parts[0] == "const:`" && parts[2] == "const:`" && parts[1] == "val:"+fm[0].Name() {
						okLit = true
					} else if len(parts) > 0 {
						bad = append(bad, "the new literal is not backtick + rendered tags + backtick: "+strings.Join(parts, " + "))
					}
				}
				if !okLit && len(bad) == 0 {
					bad = append(bad, "the rendered tags are not installed as the replacement literal")
				}
			}
		}
		// format(): each item rendered key ":" value, joined by " "
		if ff := p.Method("file", "tagItems", "format"); ff != nil {
			c.Funcs[fnName(ff)] = true
			m := renderLoopModel(p, ff)
			okFmt := m.Why == "" && len(m.First) == 3 && strings.HasSuffix(m.First[0], ".key") && m.First[1] == "const::" && strings.HasSuffix(m.First[2], ".value")
			okJoin := okFmt && len(m.Later) == 4 && m.Later[0] == "const: " && strings.Join(m.Later[1:], "|") == strings.Join(m.First, "|")
			if m.Why != "" {
				bad = append(bad, "format(): "+m.Why)
			}
			if !okFmt || !okJoin {
				bad = append(bad, "format() does not render key:value pairs joined by one space")
			}
		} else {
			bad = append(bad, "tagItems.format not found")
		}
		c.Sites++
		c.Check(len(bad) == 0, prop+"-ROLE", fnName(inject), "merge-roles", inject.Pos(), "old.override(injected), rendered `k:v k:v`", strings.Join(bad, "; "))
	}
	// ---------------- TAIL
	c.Rule(prop+"-TAIL", "replacement pattern ≡ `[^\\n]+`$ ; tag tokeniser ≡ [0-9A-Za-z_]+:\"[^\"]+\" ; comment pattern ≡ @tag (.*)", 3)
	{
		pats := patternGlobals(p, "file")
		want := map[string]string{"rInject": "`[^\\n]+`$", "rTags": `^(?:[0-9A-Za-z_]+:"[^"]+")$`, "rComment": `@tag [^\n]*`}
		for name, ref := range want {
			pg, ok := pats[name]
			if !ok && name == "rComment" && tfc != nil {
				// the comment pattern replaced by a literal scan: first occurrence of a constant prefix, text
				// behind it up to the first newline — the language of `prefix(.*)`
				if prefix, pos, okScan := literalScanForm(tfc); okScan {
					pg, ok = patGlobal{Pat: regexp.QuoteMeta(prefix) + "(.*)", Pos: pos}, true
				}
			}
			if !ok {
				c.Unk(prop+"-TAIL", "file."+name, "language", token.NoPos, "pattern variable not found or not constant")
				continue
			}
			pat := pg.Pat
			if name == "rTags" {
				pat = "^(?:" + pat + ")$" // compared as a token language (FindAllString)
			}
			eq, wit, n, err := RxEquivalent(pat, ref)
			c.Sites += n
			switch {
			case err != nil:
				c.Unk(prop+"-TAIL", "file."+name, "language", pg.Pos, err.Error())
			case !eq:
				c.Bad(prop+"-TAIL", "file."+name, "language", pg.Pos, fmt.Sprintf("pattern %q differs from the reference %q: %s", pg.Pat, ref, wit))
			default:
				c.OK(prop+"-TAIL", "file."+name, "language", pg.Pos, fmt.Sprintf("%q ≡ %q", pg.Pat, ref))
			}
		}
		// the replacement is applied with rInject.ReplaceAll on the copied expression only
		ra := replaceCalls(inject)
		okRA := len(ra) == 1
		if okRA {
			if g, ok := ra[0].Call.Args[0].(*ssa.UnOp); !ok {
				okRA = false
			} else if gl, ok := g.X.(*ssa.Global); !ok || gl.Name() != "rInject" {
				okRA = false
			}
		}
		c.Sites++
		c.Check(okRA, prop+"-TAIL", fnName(inject), "replace-all", inject.Pos(), "the literal is replaced wholesale by one rInject replace call", "the new literal is not installed by one rInject.ReplaceAll[Literal] on the field expression (appending instead of replacing breaks idempotence)")
		// the replacement is the merged tag text itself: regexp.ReplaceAll treats its argument as a
		// template ($name, ${name}, $1 are expanded — to nothing, the pattern has no groups), so a '$'
		// in any tag value, kept or injected, would be eaten; ReplaceAllLiteral (or a template with
		// every '$' doubled) installs the text as it is
		if okRA {
			c.Sites++
			nm := calleeName(&ra[0].Call)
			c.Check(nm == "(*regexp.Regexp).ReplaceAllLiteral", prop+"-TAIL", fnName(inject), "replace-literal", ra[0].Pos(), "the merged tag text is installed literally (ReplaceAllLiteral)", "the merged tag text is given to "+nm+" as a replacement TEMPLATE: '$name' / '${name}' / '$1' inside a tag value (json:\"$ref\", note:\"US$price\") is expanded to nothing, so a kept key loses part of its value and an injected value is not exactly v")
		}
	}
	// ---------------- MERGE
	runMerge(c, prop)
	runInjectorState(c, prop+"-STATE")
	if prop == "C07" {
		return
	}
	// ---------------- SPLICE
	c.Rule("C06-SPLICE", "result = contents[:A] ++ f(copy of contents[A:B]) ++ contents[B:] with the same A and B", 1)
	{
		bc := newBoundsCtx(p, inject)
		var bad []string
		ret := func() ssa.Value {
			for _, b := range inject.Blocks {
				if r, ok := b.Instrs[len(b.Instrs)-1].(*ssa.Return); ok && len(r.Results) == 1 {
					return r.Results[0]
				}
			}
			return nil
		}()
		// unwind appends
		var pieces []ssa.Value
		for v := ret; v != nil; {
			call, ok := v.(*ssa.Call)
			if !ok || calleeName(&call.Call) != "builtin.append" {
				if !isNilConst(v) && !isFreshEmptySlice(v) {
					if ph, isPhi := v.(*ssa.Phi); !isPhi || len(ph.Edges) == 0 {
						bad = append(bad, "result is not built by appends onto an empty slice")
					}
				}
				break
			}
			pieces = append([]ssa.Value{call.Call.Args[1]}, pieces...)
			v = call.Call.Args[0]
		}
		if len(pieces) != 3 {
			bad = append(bad, fmt.Sprintf("result is a concatenation of %d pieces (want prefix, replaced expression, suffix)", len(pieces)))
		} else {
			contents := inject.Params[0]
			pre, isPre := pieces[0].(*ssa.Slice)
			suf, isSuf := pieces[2].(*ssa.Slice)
			mid := pieces[1]
			if !isPre || pre.X != contents || pre.Low != nil || pre.High == nil {
				bad = append(bad, "first piece is not contents[:A]")
			}
			if !isSuf || suf.X != contents || suf.High != nil || suf.Low == nil {
				bad = append(bad, "last piece is not contents[B:]")
			}
			// middle = ReplaceAll(re, expr, ...) where expr = make + copy(expr, contents[A2:B2])
			var A2, B2 ssa.Value
			if ra, ok := mid.(*ssa.Call); ok && (calleeName(&ra.Call) == "(*regexp.Regexp).ReplaceAll" || calleeName(&ra.Call) == "(*regexp.Regexp).ReplaceAllLiteral") {
				expr := ra.Call.Args[1]
				for _, r := range refs(expr) {
					if cp, ok := r.(*ssa.Call); ok && calleeName(&cp.Call) == "builtin.copy" && cp.Call.Args[0] == expr {
						if src, ok := cp.Call.Args[1].(*ssa.Slice); ok && src.X == contents {
							A2, B2 = src.Low, src.High
						}
					}
				}
			} else {
				bad = append(bad, "middle piece is not the replaced copy of the field expression")
			}
			if isPre && isSuf && A2 != nil && B2 != nil {
				an, ao := bc.term(pre.High, 0)
				a2n, a2o := bc.term(A2, 0)
				bn, bo := bc.term(suf.Low, 0)
				b2n, b2o := bc.term(B2, 0)
				if an != a2n || ao != a2o {
					bad = append(bad, "the prefix kept ends at a different offset than where the copied expression starts: bytes are lost or duplicated")
				}
				if bn != b2n || bo != b2o {
					bad = append(bad, "the suffix kept starts at a different offset than where the copied expression ends: bytes are lost or duplicated")
				}
			} else if len(bad) == 0 {
				bad = append(bad, "copied span of the expression not recognised")
			}
		}
		c.Sites++
		c.Check(len(bad) == 0, "C06-SPLICE", fnName(inject), "splice", inject.Pos(), "contents[:A] ++ f(contents[A:B]) ++ contents[B:]", strings.Join(bad, "; "))
	}
	// ---------------- ORDER
	c.Rule("C06-ORDER", "areas are applied from the end of the file backwards (descending offsets)", 1)
	{
		var bad []string
		found := false
		for _, b := range write.Blocks {
			for _, ins := range b.Instrs {
				ia, ok := ins.(*ssa.IndexAddr)
				if !ok || ia.X != write.Params[1] {
					continue
				}
				found = true
				// index = len(areas) - i - 1 with i ascending, or i descending from len-1
				desc := false
				switch x := ia.Index.(type) {
				case *ssa.BinOp:
					// (len - i) - 1  |  len - (i+1)  |  (len - 1) - i
					lin := linOf(x, func(v ssa.Value) (string, bool) {
						if call, ok := v.(*ssa.Call); ok && calleeName(&call.Call) == "builtin.len" && call.Call.Args[0] == write.Params[1] {
							return "len", true
						}
						if ph, ok := v.(*ssa.Phi); ok {
							// ascending counter from 0
							asc := false
							for _, e := range ph.Edges {
								if k, ok := constInt(e); ok && k == 0 {
									asc = true
								}
							}
							if asc {
								return "i", true
							}
						}
						return "", false
					}, 0)
					if lin.ok && lin.t["len"] == 1 && lin.t["i"] == -1 && lin.c == -1 {
						desc = true
					}
				case *ssa.Phi:
					// descending counter: starts at len-1, decremented
					for _, e := range x.Edges {
						if bo, ok := e.(*ssa.BinOp); ok && bo.Op == token.SUB && bo.X == x {
							if k, ok := constInt(bo.Y); ok && k == 1 {
								desc = true
							}
						}
					}
				}
				if !desc {
					bad = append(bad, "areas are not indexed from the last to the first: applying an earlier area first shifts the offsets of all later ones, corrupting bytes outside the tag literals")
				}
			}
		}
		if !found {
			// range over areas (ascending) or other idiom
			bad = append(bad, "area list is not indexed explicitly in descending order (a plain range applies areas in ascending order)")
		}
		c.Sites++
		c.Check(len(bad) == 0, "C06-ORDER", fnName(write), "descending", write.Pos(), "areas[len-1-i] for ascending i", strings.Join(bad, "; "))
	}
	// ---------------- area span
	c.Rule("C06-SPAN", "an area's Start is field.Pos() and its End is field.End() of the annotated field; CurrentTag is the field's tag literal without its quotes", 1)
	{
		var bad []string
		n := 0
		for _, b := range parse.Blocks {
			for _, ins := range b.Instrs {
				st, ok := ins.(*ssa.Store)
				if !ok {
					continue
				}
				fa, ok := st.Addr.(*ssa.FieldAddr)
				if !ok || !strings.Contains(fa.X.Type().String(), "textArea") {
					continue
				}
				name := fieldAddrName(fa)
				src := st.Val
				if cv, ok := src.(*ssa.Convert); ok {
					src = cv.X
				}
				src = unwrapChange(src)
				switch name {
				case "Start", "End":
					n++
					call, ok := src.(*ssa.Call)
					want := map[string]string{"Start": "(*go/ast.Field).Pos", "End": "(*go/ast.Field).End"}[name]
					if !ok || calleeName(&call.Call) != want {
						bad = append(bad, name+" is not "+want+"() of the field")
					}
				}
			}
		}
		if n < 2 {
			bad = append(bad, "area construction not recognised")
		}
		c.Sites++
		c.Check(len(bad) == 0, "C06-SPAN", fnName(parse), "span", parse.Pos(), "Start = field.Pos(), End = field.End()", strings.Join(bad, "; "))
	}
	runFreshFileSet(c, "C06-SPAN")
	runAllFields(c, "C06-SPAN")
}

// runAllFields: every declaration of the file and every field of every struct is looked at. The
// loops of ParseFile that range over the file's declarations and over a struct's field list leave
// only through their headers (no break / return from inside): an exit from the middle leaves the
// rest of the struct, or of the file, without its injected tags (and for a later run to pick up).
func runAllFields(c *Ctx, rule string) {
	p := c.P
	parse := p.Func("file", "ParseFile")
	if parse == nil {
		return
	}
	n := 0
	var bad []string
	for _, l := range naturalLoops(parse) {
		what := ""
		var ranged ssa.Value
		for _, ins := range l.Header.Instrs {
			bo, ok := ins.(*ssa.BinOp)
			if !ok {
				continue
			}
			ln, ok := bo.Y.(*ssa.Call)
			if !ok || calleeName(&ln.Call) != "builtin.len" {
				continue
			}
			sl, ok := ln.Call.Args[0].Type().Underlying().(*types.Slice)
			if !ok {
				continue
			}
			switch {
			case strings.HasSuffix(sl.Elem().String(), "go/ast.Field"):
				what = "the struct's fields"
				ranged = ln.Call.Args[0]
			case strings.HasSuffix(sl.Elem().String(), "go/ast.Decl"):
				what = "the file's declarations"
				ranged = ln.Call.Args[0]
			}
		}
		if what == "" {
			// the length may have been taken before the loop
			for b := range l.Body {
				for _, ins := range b.Instrs {
					ia, ok := ins.(*ssa.IndexAddr)
					if !ok {
						continue
					}
					if sl, ok := ia.X.Type().Underlying().(*types.Slice); ok {
						switch {
						case strings.HasSuffix(sl.Elem().String(), "go/ast.Field") && isLoopIndex(ia.Index, l):
							what = "the struct's fields"
							ranged = ia.X
						case strings.HasSuffix(sl.Elem().String(), "go/ast.Decl") && isLoopIndex(ia.Index, l):
							what = "the file's declarations"
							ranged = ia.X
						}
					}
				}
			}
		}
		if what == "" {
			continue
		}
		n++
		c.Sites++
		// source order: the list walked is the syntax tree's own list (FieldList.List / File.Decls), whose
		// order is the order of the text — the writer relies on the areas being ascending. A list assembled
		// here (nested structs' fields appended behind their parent's later siblings, a sorted or grouped
		// copy) yields areas out of offset order: the later ones are applied to stale offsets and dropped.
		if ranged != nil {
			okSrc := false
			v := ranged
			if u, ok := v.(*ssa.UnOp); ok && u.Op == token.MUL {
				if fa, ok := u.X.(*ssa.FieldAddr); ok {
					nm := fieldAddrName(fa)
					okSrc = (nm == "List" && isNamed(derefType(fa.X.Type()), "go/ast", "FieldList")) || (nm == "Decls" && isNamed(derefType(fa.X.Type()), "go/ast", "File"))
				}
			}
			if !okSrc {
				bad = append(bad, "the loop over "+what+" walks a list assembled in this function ("+shorten(ranged.String(), 60)+" at "+p.Pos(ranged.Pos())+"), not the syntax tree's own list: the areas are no longer in ascending offset order, which the writer relies on")
			}
		}
		for _, ee := range l.exitEdges() {
			if ee[0] != l.Header {
				bad = append(bad, "the loop over "+what+" is left from inside an iteration at "+p.Pos(instrPos(ee[0].Instrs[len(ee[0].Instrs)-1]))+": the remaining "+strings.TrimPrefix(what, "the ")+" are not processed")
			}
		}
	}
	if n < 2 {
		bad = append(bad, fmt.Sprintf("expected the declaration loop and the field loop in ParseFile, found %d", n))
	}
	c.Check(len(bad) == 0, rule, fnName(parse), "all-fields", parse.Pos(), "declaration and field loops leave only through their headers", strings.Join(uniqStrings(bad), "; "))
}

// isLoopIndex: v is the loop's induction variable (header φ, or φ+1 of a range loop).
func isLoopIndex(v ssa.Value, l *loopInfo) bool {
	if bo, ok := v.(*ssa.BinOp); ok && bo.Op == token.ADD {
		v = bo.X
	}
	ph, ok := v.(*ssa.Phi)
	return ok && ph.Block() == l.Header
}

// runFreshFileSet: areas store token.Pos values as byte offsets (+1) into the file. That is
// only what a token.Pos means for the first file of a FileSet, so every file must be parsed
// into its own, freshly created FileSet: the FileSet argument of parser.ParseFile has to be the
// result of token.NewFileSet() called in the same function invocation. A shared (package-level,
// cached, passed-in) FileSet shifts the positions of every file after the first one.
func runFreshFileSet(c *Ctx, rule string) {
	p := c.P
	parse := p.Func("file", "ParseFile")
	if parse == nil {
		return
	}
	n := 0
	for fn := range reachableFrom(parse) {
		for _, b := range fn.Blocks {
			for _, ins := range b.Instrs {
				call, ok := ins.(*ssa.Call)
				if !ok || calleeName(&call.Call) != "go/parser.ParseFile" {
					continue
				}
				n++
				c.Sites++
				src, isCall := call.Call.Args[0].(*ssa.Call)
				fresh := isCall && calleeName(&src.Call) == "go/token.NewFileSet" && src.Parent() == fn
				if fresh {
					// not inside a loop that parses several files with it
					for _, l := range naturalLoops(fn) {
						if l.Body[call.Block()] && !l.Body[src.Block()] {
							fresh = false
						}
					}
				}
				c.Check(fresh, rule, fnName(fn), "fresh-fileset", call.Pos(), "each file is parsed into its own token.NewFileSet(): Pos = offset+1",
					"the file is parsed into a FileSet that is not created for this very file: token.Pos values of every file after the first are shifted by the sizes of the earlier ones, yet they are used as byte offsets into this file (slice out of range, or bytes spliced at the wrong place)")
			}
		}
	}
	if n == 0 {
		c.Unk(rule, fnName(parse), "fresh-fileset", parse.Pos(), "no go/parser.ParseFile call found")
	}
}

// renderParts flattens a string built by concatenation or by fmt.Sprintf with a format made of
// %s/%v verbs and literal text into its parts: "const:<text>", "field:<x>.<name>" for loads of
// struct fields, "val:<ssa name>" otherwise. Nil when the shape is not recognised.
func renderParts(v ssa.Value) []string {
	switch x := v.(type) {
	case *ssa.Const:
		if s, ok := constString(x); ok {
			return []string{"const:" + s}
		}
	case *ssa.BinOp:
		if x.Op == token.ADD {
			a, b := renderParts(x.X), renderParts(x.Y)
			if a == nil || b == nil {
				return nil
			}
			return append(a, b...)
		}
	case *ssa.Call:
		if calleeName(&x.Call) == "fmt.Sprintf" {
			f, ok := constString(x.Call.Args[0])
			if !ok {
				return nil
			}
			args := variadicElems(x.Call.Args[1])
			// stores are found in no particular order: order them by index
			ordered := make([]ssa.Value, len(args))
			if sl, ok := x.Call.Args[1].(*ssa.Slice); ok {
				if al, ok := sl.X.(*ssa.Alloc); ok {
					for _, r := range refs(al) {
						if ia, ok := r.(*ssa.IndexAddr); ok {
							k, _ := constInt(ia.Index)
							for _, rr := range refs(ia) {
								if st, ok := rr.(*ssa.Store); ok && st.Addr == ia && int(k) < len(ordered) {
									ordered[k] = st.Val
								}
							}
						}
					}
				}
			}
			var out []string
			ai := 0
			for i := 0; i < len(f); {
				if f[i] == '%' && i+1 < len(f) && (f[i+1] == 's' || f[i+1] == 'v') {
					if ai >= len(ordered) || ordered[ai] == nil {
						return nil
					}
					sub := renderParts(stripIface(ordered[ai]))
					if sub == nil {
						return nil
					}
					out = append(out, sub...)
					ai++
					i += 2
					continue
				}
				j := i
				for j < len(f) && f[j] != '%' {
					j++
				}
				if j == i {
					return nil // unsupported verb
				}
				out = append(out, "const:"+f[i:j])
				i = j
			}
			return out
		}
		return []string{"val:" + x.Name()}
	case *ssa.UnOp:
		if fa, ok := x.X.(*ssa.FieldAddr); ok {
			return []string{"field:" + fa.X.Name() + "." + fieldAddrName(fa)}
		}
	case *ssa.Field:
		return []string{"field:" + x.X.Name() + "." + fieldValName(x)}
	}
	if v == nil {
		return nil
	}
	return []string{"val:" + v.Name()}
}

// isFreshEmptySlice: make(T, 0[, n]) or a T{} literal: a slice of length 0 that aliases nothing else.
func isFreshEmptySlice(v ssa.Value) bool {
	switch x := v.(type) {
	case *ssa.MakeSlice:
		n, ok := constInt(x.Len)
		return ok && n == 0
	case *ssa.Slice:
		al, ok := x.X.(*ssa.Alloc)
		if !ok || !al.Heap {
			return false
		}
		if pt, ok := al.Type().Underlying().(*types.Pointer); ok {
			if arr, ok := pt.Elem().Underlying().(*types.Array); ok && arr.Len() == 0 {
				return true
			}
		}
	}
	return false
}

// builtFromAppendsOnly: v is nil/empty, or append(x, ...) with x built the same way, or a φ of such.
func builtFromAppendsOnly(v ssa.Value, seen map[ssa.Value]bool) bool {
	if seen[v] {
		return true
	}
	seen[v] = true
	if isNilConst(v) || isFreshEmptySlice(v) {
		return true
	}
	switch x := v.(type) {
	case *ssa.Phi:
		for _, e := range x.Edges {
			if !builtFromAppendsOnly(e, seen) {
				return false
			}
		}
		return true
	case *ssa.Call:
		if calleeName(&x.Call) == "builtin.append" {
			return builtFromAppendsOnly(x.Call.Args[0], seen)
		}
	}
	return false
}

// replaceCalls: the calls of (*regexp.Regexp).ReplaceAll / ReplaceAllLiteral in fn.
func replaceCalls(fn *ssa.Function) []*ssa.Call {
	out := callsIn(fn, "(*regexp.Regexp).ReplaceAll")
	return append(out, callsIn(fn, "(*regexp.Regexp).ReplaceAllLiteral")...)
}

func derefType(t types.Type) types.Type {
	if pt, ok := t.Underlying().(*types.Pointer); ok {
		return pt.Elem()
	}
	return t
}

// isSubmatchTag: v is match[1] of a (*regexp.Regexp).FindStringSubmatch call, possibly merged by φs
// with the empty string (the "did not match" case).
func isSubmatchTag(v ssa.Value, seen map[ssa.Value]bool) bool {
	if seen[v] {
		return true
	}
	seen[v] = true
	switch x := v.(type) {
	case *ssa.Const:
		s, ok := constString(x)
		return ok && s == ""
	case *ssa.Phi:
		any := false
		for _, e := range x.Edges {
			if !isSubmatchTag(e, seen) {
				return false
			}
			if _, isC := e.(*ssa.Const); !isC {
				any = true
			}
		}
		return any
	case *ssa.UnOp:
		ia, ok := x.X.(*ssa.IndexAddr)
		if !ok || x.Op != token.MUL {
			return false
		}
		k, isK := constInt(ia.Index)
		call, isCall := ia.X.(*ssa.Call)
		return isK && k == 1 && isCall && calleeName(&call.Call) == "(*regexp.Regexp).FindStringSubmatch"
	}
	return false
}

// roleOfInlinedList: v is a tag list built in place (φ / append chain of items cut out of the
// tokens of one FindAllString call): the name of the area field whose text was tokenised.
func roleOfInlinedList(v ssa.Value) string {
	seen := map[ssa.Value]bool{}
	found := map[string]bool{}
	var fromToken func(x ssa.Value, d int)
	fromToken = func(x ssa.Value, d int) {
		if x == nil || seen[x] || d > 12 {
			return
		}
		seen[x] = true
		switch y := x.(type) {
		case *ssa.Call:
			if calleeName(&y.Call) == "(*regexp.Regexp).FindAllString" {
				if ld, ok := y.Call.Args[1].(*ssa.UnOp); ok {
					if fa, ok := ld.X.(*ssa.FieldAddr); ok {
						found[fieldAddrName(fa)] = true
					}
				}
				return
			}
			for _, a := range y.Call.Args {
				fromToken(a, d+1)
			}
		case *ssa.Phi:
			for _, e := range y.Edges {
				fromToken(e, d+1)
			}
		case *ssa.Slice:
			fromToken(y.X, d+1)
		case *ssa.ChangeType:
			fromToken(y.X, d+1)
		case *ssa.UnOp:
			fromToken(y.X, d+1)
		case *ssa.IndexAddr:
			fromToken(y.X, d+1)
		case *ssa.Alloc:
			for _, r := range refs(y) {
				switch z := r.(type) {
				case *ssa.Store:
					if z.Addr == ssa.Value(y) {
						fromToken(z.Val, d+1)
					}
				case *ssa.IndexAddr:
					for _, rr := range refs(z) {
						if st, ok := rr.(*ssa.Store); ok && st.Addr == ssa.Value(z) {
							fromToken(st.Val, d+1)
						}
					}
				case *ssa.FieldAddr:
					for _, rr := range refs(z) {
						if st, ok := rr.(*ssa.Store); ok && st.Addr == ssa.Value(z) {
							fromToken(st.Val, d+1)
						}
					}
				}
			}
		}
	}
	fromToken(v, 0)
	if len(found) == 1 {
		for k := range found {
			return k
		}
	}
	return "?"
}

func firstPosOfIf(iff *ssa.If, b *ssa.BasicBlock) token.Pos {
	if v, ok := iff.Cond.(ssa.Instruction); ok && v.Pos() != token.NoPos {
		return v.Pos()
	}
	return firstPos(b)
}

// literalScanForm recognises the comment-tag extractor written without a regular expression:
//
//	i := strings.Index(comment, K); if i < 0 { return "" }
//	tag := comment[i+len(K):]; if j := strings.IndexByte(tag, '\n'); j >= 0 { tag = tag[:j] }; return tag
//
// which yields exactly the first submatch of `K(.*)` (leftmost occurrence of K, then everything up to the
// end of the line). Returned: the constant prefix K.
func literalScanForm(fn *ssa.Function) (string, token.Pos, bool) {
	if fn == nil || len(fn.Params) != 1 {
		return "", token.NoPos, false
	}
	text := ssa.Value(fn.Params[0])
	var idx *ssa.Call
	prefix := ""
	nIdx := 0
	for _, b := range fn.Blocks {
		for _, ins := range b.Instrs {
			c, ok := ins.(*ssa.Call)
			if !ok || calleeName(&c.Call) != "strings.Index" || c.Call.Args[0] != text {
				continue
			}
			if k, ok := constString(c.Call.Args[1]); ok && k != "" {
				idx, prefix = c, k
				nIdx++
			}
		}
	}
	if idx == nil || nIdx != 1 {
		return "", token.NoPos, false
	}
	// the cut behind the prefix, and the cut at the first newline of that remainder
	var after *ssa.Slice
	for _, b := range fn.Blocks {
		for _, ins := range b.Instrs {
			sl, ok := ins.(*ssa.Slice)
			if !ok || sl.X != text || sl.High != nil || sl.Low == nil {
				continue
			}
			if bo, ok := sl.Low.(*ssa.BinOp); ok && bo.Op == token.ADD {
				for _, pr := range [][2]ssa.Value{{bo.X, bo.Y}, {bo.Y, bo.X}} {
					if k, isK := constInt(pr[1]); isK && pr[0] == ssa.Value(idx) && int(k) == len(prefix) {
						after = sl
					}
				}
			}
		}
	}
	if after == nil {
		return "", token.NoPos, false
	}
	var eol *ssa.Call
	var lineCut *ssa.Slice
	for _, b := range fn.Blocks {
		for _, ins := range b.Instrs {
			switch x := ins.(type) {
			case *ssa.Call:
				nm := calleeName(&x.Call)
				if (nm == "strings.IndexByte" || nm == "strings.Index") && x.Call.Args[0] == ssa.Value(after) {
					if k, ok := constInt(x.Call.Args[1]); ok && k == '\n' {
						eol = x
					}
					if k, ok := constString(x.Call.Args[1]); ok && k == "\n" {
						eol = x
					}
				}
			case *ssa.Slice:
				if x.X == ssa.Value(after) && x.Low == nil && x.High != nil {
					lineCut = x
				}
			}
		}
	}
	if eol == nil || lineCut == nil || lineCut.High != ssa.Value(eol) {
		return "", token.NoPos, false
	}
	// every return hands back "", the remainder, or the remainder cut at the newline
	okRet := true
	var walk func(v ssa.Value, d int) bool
	walk = func(v ssa.Value, d int) bool {
		if d > 6 {
			return false
		}
		switch x := v.(type) {
		case *ssa.Const:
			k, ok := constString(x)
			return ok && k == ""
		case *ssa.Slice:
			return x == after || x == lineCut
		case *ssa.Phi:
			for _, e := range x.Edges {
				if !walk(e, d+1) {
					return false
				}
			}
			return true
		case *ssa.UnOp:
			if cell, ok := x.X.(*ssa.Alloc); ok {
				for _, r := range refs(cell) {
					if st, ok := r.(*ssa.Store); ok && st.Addr == ssa.Value(cell) && !walk(st.Val, d+1) {
						return false
					}
				}
				return true
			}
		}
		return false
	}
	for _, b := range fn.Blocks {
		if ret, ok := b.Instrs[len(b.Instrs)-1].(*ssa.Return); ok {
			if len(ret.Results) != 1 || !walk(ret.Results[0], 0) {
				okRet = false
			}
		}
	}
	if !okRet {
		return "", token.NoPos, false
	}
	return prefix, idx.Pos(), true
}
